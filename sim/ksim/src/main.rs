//! ksim -- engine K: cicada's real job-control code (Shell job table, jobc.rs,
//! signals.rs, fg/bg/jobs builtins) running against a simulated kernel
//! (process table, waitpid, process groups, terminal owner). One seeded PRNG
//! decides every step; every step taken is recorded, so a run can be
//! replayed and shrunk from its explicit step list.
//!
//! See /verif/DESIGN.md sections 3.1, 5 (C06) and Appendix E.

use cicada::verif as cv;
use nix::sys::signal::Signal;
use nix::sys::wait::WaitStatus;
use nix::unistd::Pid;
use serde_json::{json, Value};
use std::collections::{BTreeMap, BTreeSet, HashSet};
use std::sync::{Arc, Mutex};

const SHELL_PGID: i32 = 50;
const WNOHANG: i32 = libc::WNOHANG;

// ---------------------------------------------------------------- PRNG

#[derive(Clone)]
struct Rng {
    s: [u64; 4],
}

fn splitmix(x: &mut u64) -> u64 {
    *x = x.wrapping_add(0x9E3779B97F4A7C15);
    let mut z = *x;
    z = (z ^ (z >> 30)).wrapping_mul(0xBF58476D1CE4E5B9);
    z = (z ^ (z >> 27)).wrapping_mul(0x94D049BB133111EB);
    z ^ (z >> 31)
}

impl Rng {
    fn new(seed: u64, stream: u64) -> Rng {
        let mut x = seed ^ stream.wrapping_mul(0xD1342543DE82EF95);
        let s = [splitmix(&mut x), splitmix(&mut x), splitmix(&mut x), splitmix(&mut x)];
        Rng { s }
    }
    fn next(&mut self) -> u64 {
        let r = self.s[1].wrapping_mul(5).rotate_left(7).wrapping_mul(9);
        let t = self.s[1] << 17;
        self.s[2] ^= self.s[0];
        self.s[3] ^= self.s[1];
        self.s[1] ^= self.s[2];
        self.s[0] ^= self.s[3];
        self.s[2] ^= t;
        self.s[3] = self.s[3].rotate_left(45);
        r
    }
    fn below(&mut self, n: usize) -> usize {
        if n == 0 {
            0
        } else {
            (self.next() % n as u64) as usize
        }
    }
    fn chance(&mut self, pct: u32) -> bool {
        (self.next() % 100) < pct as u64
    }
}

// ---------------------------------------------------------------- steps

#[derive(Clone, Debug, PartialEq)]
enum Step {
    Launch { bg: bool, pids: Vec<i32> },
    Fg { slot: usize },
    Bg { slot: usize },
    Jobs,
    Empty,
    Handler,
    Check,
    Stop { p: usize, sig: i32 },
    Cont { p: usize },
    Exit { p: usize, code: i32 },
    Kill { p: usize, sig: i32 },
    /// the process leaves its job's process group (setpgid(0,0) / setsid): it stays a child of the shell
    Leave { p: usize },
    Report { p: usize },
    Deliver,
}

impl Step {
    fn is_world(&self) -> bool {
        matches!(self, Step::Stop { .. } | Step::Cont { .. } | Step::Exit { .. } | Step::Kill { .. } | Step::Leave { .. })
    }
    fn to_json(&self) -> Value {
        match self {
            Step::Launch { bg, pids } => json!({"k": "launch", "bg": bg, "pids": pids}),
            Step::Fg { slot } => json!({"k": "fg", "slot": slot}),
            Step::Bg { slot } => json!({"k": "bg", "slot": slot}),
            Step::Jobs => json!({"k": "jobs"}),
            Step::Empty => json!({"k": "empty"}),
            Step::Handler => json!({"k": "handler"}),
            Step::Check => json!({"k": "check"}),
            Step::Stop { p, sig } => json!({"k": "stop", "p": p, "sig": sig}),
            Step::Cont { p } => json!({"k": "cont", "p": p}),
            Step::Exit { p, code } => json!({"k": "exit", "p": p, "code": code}),
            Step::Kill { p, sig } => json!({"k": "kill", "p": p, "sig": sig}),
            Step::Leave { p } => json!({"k": "leave", "p": p}),
            Step::Report { p } => json!({"k": "report", "p": p}),
            Step::Deliver => json!({"k": "deliver"}),
        }
    }
    fn from_json(v: &Value) -> Option<Step> {
        let k = v.get("k")?.as_str()?;
        let u = |n: &str| v.get(n).and_then(|x| x.as_u64()).unwrap_or(0) as usize;
        let i = |n: &str| v.get(n).and_then(|x| x.as_i64()).unwrap_or(0) as i32;
        Some(match k {
            "launch" => Step::Launch {
                bg: v.get("bg").and_then(|x| x.as_bool()).unwrap_or(false),
                pids: v
                    .get("pids")?
                    .as_array()?
                    .iter()
                    .filter_map(|x| x.as_i64().map(|y| y as i32))
                    .collect(),
            },
            "fg" => Step::Fg { slot: u("slot") },
            "bg" => Step::Bg { slot: u("slot") },
            "jobs" => Step::Jobs,
            "empty" => Step::Empty,
            "handler" => Step::Handler,
            "check" => Step::Check,
            "stop" => Step::Stop { p: u("p"), sig: i("sig") },
            "cont" => Step::Cont { p: u("p") },
            "exit" => Step::Exit { p: u("p"), code: i("code") },
            "kill" => Step::Kill { p: u("p"), sig: i("sig") },
            "leave" => Step::Leave { p: u("p") },
            "report" => Step::Report { p: u("p") },
            "deliver" => Step::Deliver,
            _ => return None,
        })
    }
}

// ---------------------------------------------------------------- simulated kernel + model

#[derive(Clone, Copy, PartialEq, Debug)]
enum Term {
    Exit(i32),
    Sig(i32),
}

#[derive(Clone, Copy, PartialEq, Debug)]
enum PState {
    Run,
    Stop,
    Zombie(Term),
    Reaped(Term),
}

#[derive(Clone, Copy, PartialEq, Debug)]
enum Pending {
    None,
    Stop(i32),
    Cont,
}

#[derive(Clone, Debug)]
struct Proc {
    pid: i32,
    job: usize,
    pgid: i32,
    state: PState,
    pending: Pending,
    /// left its job's process group (never stopped afterwards: the shell's killpg could not continue it)
    left: bool,
}

impl Proc {
    fn live(&self) -> bool {
        matches!(self.state, PState::Run | PState::Stop)
    }
    fn reportable(&self) -> bool {
        matches!(self.state, PState::Zombie(_)) || self.pending != Pending::None
    }
    fn settled(&self) -> bool {
        matches!(self.state, PState::Reaped(_)) || (self.state == PState::Stop && self.pending == Pending::None)
    }
}

#[derive(Clone, Debug)]
struct MJob {
    gid: i32,
    procs: Vec<usize>,
}

#[derive(Clone, Debug)]
struct Violation {
    class: String,
    detail: String,
}

#[derive(Clone)]
struct GenCfg {
    handler_mode: bool,
    max_jobs: usize,
    max_procs: usize,
    max_events: usize,
    max_lines: usize,
    w_stop: u32,
    w_cont: u32,
    w_exit: u32,
    w_kill: u32,
    w_leave: u32,
    w_fgbg: u32,
    w_jobs: u32,
    w_launch_bg: u32,
    prompt_event_pct: u32,
    batch_pct: u32,
    reuse_pids: bool,
}

enum Source {
    Gen { rng: Rng, cfg: GenCfg, events_left: usize, lines_left: usize },
    Replay { steps: Vec<Step>, pos: usize },
}

struct FgWait {
    gid: i32,
    pids: Vec<i32>,
    waited: bool,
    last_reaped_in_wait: bool,
}

struct World {
    procs: Vec<Proc>,
    jobs: Vec<MJob>,
    tty_pgrp: i32,
    source: Source,
    trace: Vec<Step>,
    fg: Option<FgWait>,
    wait_group: Option<i32>,
    violation: Option<Violation>,
    hash: u64,
    log: Option<Vec<String>>,
    probes: BTreeMap<&'static str, u64>,
    steps: u64,
    waits: u64,
    handler_mode: bool,
}

fn fnv(h: &mut u64, s: &str) {
    for b in s.as_bytes() {
        *h ^= *b as u64;
        *h = h.wrapping_mul(0x100000001b3);
    }
    *h ^= 0xff;
    *h = h.wrapping_mul(0x100000001b3);
}

impl World {
    fn new(source: Source, handler_mode: bool, keep_log: bool) -> World {
        World {
            procs: Vec::new(),
            jobs: Vec::new(),
            tty_pgrp: SHELL_PGID,
            source,
            trace: Vec::new(),
            fg: None,
            wait_group: None,
            violation: None,
            hash: 0xcbf29ce484222325,
            log: if keep_log { Some(Vec::new()) } else { None },
            probes: BTreeMap::new(),
            steps: 0,
            waits: 0,
            handler_mode,
        }
    }

    fn ev(&mut self, s: String) {
        fnv(&mut self.hash, &s);
        if let Some(l) = self.log.as_mut() {
            l.push(s);
        }
    }

    fn probe(&mut self, name: &'static str) {
        *self.probes.entry(name).or_insert(0) += 1;
    }

    fn violate(&mut self, class: &str, detail: String) {
        if self.violation.is_none() {
            self.ev(format!("VIOLATION {} {}", class, detail));
            self.violation = Some(Violation { class: class.to_string(), detail });
        }
    }

    /// logical name of a pid: j<launch>.s<stage>
    fn pname(&self, pid: i32) -> String {
        for (i, p) in self.procs.iter().enumerate().rev() {
            if p.pid == pid {
                let stage = self.jobs[p.job].procs.iter().position(|x| *x == i).unwrap_or(99);
                return format!("j{}.s{}", p.job, stage);
            }
        }
        format!("?{}", pid)
    }

    fn idx_of_pid(&self, pid: i32) -> Option<usize> {
        // the newest process with that pid (pid reuse)
        self.procs.iter().enumerate().rev().find(|(_, p)| p.pid == pid).map(|(i, _)| i)
    }

    fn live_jobs(&self) -> usize {
        self.jobs.iter().filter(|j| j.procs.iter().any(|p| self.procs[*p].live())).count()
    }

    fn pid_in_use(&self, pid: i32) -> bool {
        self.procs.iter().any(|p| p.pid == pid && !matches!(p.state, PState::Reaped(_)))
    }

    // ---- world events; return false when not applicable (then skipped)
    fn apply_world(&mut self, st: &Step) -> bool {
        let (p, what) = match st {
            Step::Stop { p, .. } => (*p, 0),
            Step::Cont { p } => (*p, 1),
            Step::Exit { p, .. } => (*p, 2),
            Step::Kill { p, .. } => (*p, 3),
            Step::Leave { p } => (*p, 4),
            _ => return false,
        };
        if p >= self.procs.len() {
            return false;
        }
        let name = self.pname(self.procs[p].pid);
        let pr = &mut self.procs[p];
        match (what, st) {
            (0, Step::Stop { sig, .. }) => {
                if pr.state != PState::Run || pr.left {
                    return false;
                }
                if pr.pending == Pending::Cont {
                    // an unconsumed "continued" report is discarded by the stop
                    pr.pending = Pending::Stop(*sig);
                    pr.state = PState::Stop;
                    self.probe("stop_overrides_unreported_cont");
                } else {
                    pr.state = PState::Stop;
                    pr.pending = Pending::Stop(*sig);
                }
                self.ev(format!("stop {}", name));
            }
            (1, _) => {
                if pr.state != PState::Stop {
                    return false;
                }
                if pr.pending != Pending::None {
                    self.probe("cont_overrides_unreported_stop");
                }
                let pr = &mut self.procs[p];
                pr.state = PState::Run;
                pr.pending = Pending::Cont;
                self.ev(format!("cont {}", name));
            }
            (2, Step::Exit { code, .. }) => {
                if pr.state != PState::Run {
                    return false;
                }
                pr.state = PState::Zombie(Term::Exit(*code & 0xff));
                pr.pending = Pending::None;
                self.ev(format!("exit {} {}", name, code));
            }
            (3, Step::Kill { sig, .. }) => {
                let ok = pr.state == PState::Run || (pr.state == PState::Stop && *sig == 9);
                if !ok {
                    return false;
                }
                pr.state = PState::Zombie(Term::Sig(*sig));
                pr.pending = Pending::None;
                self.ev(format!("kill {} {}", name, sig));
            }
            (4, _) => {
                if pr.state != PState::Run || pr.left || pr.pid == pr.pgid || pr.pending != Pending::None {
                    return false;
                }
                pr.pgid = pr.pid;
                pr.left = true;
                self.ev(format!("leave-group {}", name));
                self.probe("member_left_its_group");
            }
            _ => return false,
        }
        true
    }

    /// something the current wait can return (a wait for one process group only sees that group)
    fn have_reportable(&self) -> bool {
        let g = self.wait_group;
        self.procs.iter().any(|p| p.reportable() && g.map_or(true, |g| p.pgid == g))
    }

    fn reportable(&self) -> Vec<usize> {
        self.procs.iter().enumerate().filter(|(_, p)| p.reportable()).map(|(i, _)| i).collect()
    }

    fn fg_all_settled(&self) -> bool {
        match &self.fg {
            None => true,
            Some(f) => f.pids.iter().all(|pid| match self.idx_of_pid(*pid) {
                Some(i) => self.procs[i].settled(),
                None => true,
            }),
        }
    }

    // ---- generation of a world event (Gen mode)
    fn gen_world_event(&mut self, in_wait: bool) -> Option<Step> {
        let (rng, cfg, events_left) = match &mut self.source {
            Source::Gen { rng, cfg, events_left, .. } => (rng, cfg.clone(), events_left),
            _ => return None,
        };
        if *events_left == 0 {
            return None;
        }
        // candidates: live processes; bias towards / away from the foreground job
        let fg_gid = self.fg.as_ref().map(|f| f.gid);
        let mut cands: Vec<usize> = Vec::new();
        for (i, p) in self.procs.iter().enumerate() {
            if p.live() {
                cands.push(i);
                if in_wait && Some(p.pgid) != fg_gid {
                    // background members during a foreground wait: the interesting case
                    cands.push(i);
                }
            }
        }
        if cands.is_empty() {
            return None;
        }
        let p = cands[rng.below(cands.len())];
        let st = self.procs[p].state;
        let mut opts: Vec<(u32, u8)> = Vec::new();
        if st == PState::Run {
            if !self.procs[p].left {
                opts.push((cfg.w_stop, 0));
                if self.procs[p].pid != self.procs[p].pgid && self.procs[p].pending == Pending::None {
                    opts.push((cfg.w_leave, 5));
                }
            }
            opts.push((cfg.w_exit, 2));
            opts.push((cfg.w_kill, 3));
        } else {
            opts.push((cfg.w_cont * 3, 1));
            opts.push((cfg.w_kill, 4));
        }
        let total: u32 = opts.iter().map(|x| x.0).sum();
        if total == 0 {
            return None;
        }
        let mut r = (rng.next() % total as u64) as u32;
        let mut kind = opts[0].1;
        for (w, k) in &opts {
            if r < *w {
                kind = *k;
                break;
            }
            r -= *w;
        }
        let step = match kind {
            0 => Step::Stop { p, sig: [libc::SIGTSTP, libc::SIGSTOP, libc::SIGTTIN][rng.below(3)] },
            1 => Step::Cont { p },
            2 => Step::Exit { p, code: [0, 0, 1, 2, 127, 255, 7][rng.below(7)] },
            3 => Step::Kill { p, sig: [libc::SIGKILL, libc::SIGTERM, libc::SIGINT, libc::SIGQUIT, libc::SIGHUP][rng.below(5)] },
            5 => Step::Leave { p },
            _ => Step::Kill { p, sig: libc::SIGKILL },
        };
        *events_left -= 1;
        Some(step)
    }

    /// Inside a blocking wait with nothing to report: let the world run
    /// until some child has something to report.
    fn advance_world(&mut self) {
        let mut guard = 0;
        loop {
            guard += 1;
            if guard > 10_000 {
                self.violate("harness_loop", "advance_world".to_string());
                return;
            }
            let have = self.have_reportable();
            let is_gen = matches!(self.source, Source::Gen { .. });
            if is_gen {
                if have {
                    let more = match &mut self.source {
                        Source::Gen { rng, cfg, .. } => rng.chance(cfg.batch_pct),
                        _ => false,
                    };
                    if !more {
                        self.trace.push(Step::Deliver);
                        return;
                    }
                }
                match self.gen_world_event(true) {
                    Some(st) => {
                        if self.apply_world(&st) {
                            self.trace.push(st);
                        }
                    }
                    None => {
                        if have {
                            self.trace.push(Step::Deliver);
                            return;
                        }
                        if !self.drain_one() {
                            return;
                        }
                    }
                }
            } else {
                let next = match &mut self.source {
                    Source::Replay { steps, pos } => {
                        if *pos < steps.len() {
                            Some(steps[*pos].clone())
                        } else {
                            None
                        }
                    }
                    _ => None,
                };
                match next {
                    None => {
                        if have {
                            return;
                        }
                        if !self.drain_one() {
                            return;
                        }
                    }
                    Some(st) => {
                        if st.is_world() {
                            self.advance_pos();
                            if self.apply_world(&st) {
                                self.trace.push(st);
                            }
                        } else if st == Step::Deliver {
                            self.advance_pos();
                            if have {
                                self.trace.push(Step::Deliver);
                                return;
                            }
                        } else if let Step::Report { .. } = st {
                            if have {
                                return;
                            }
                            self.advance_pos();
                        } else {
                            // a shell step while the shell is inside a wait
                            if have {
                                return;
                            }
                            self.advance_pos(); // not applicable: skipped
                        }
                    }
                }
            }
        }
    }

    fn advance_pos(&mut self) {
        if let Source::Replay { pos, .. } = &mut self.source {
            *pos += 1;
        }
    }

    /// Scenario exhausted while the shell waits: finish one unsettled
    /// foreground process so that the run terminates (bounded liveness).
    fn drain_one(&mut self) -> bool {
        let pids: Vec<i32> = match &self.fg {
            Some(f) => f.pids.clone(),
            None => Vec::new(),
        };
        for pid in pids {
            if let Some(i) = self.idx_of_pid(pid) {
                if self.procs[i].state == PState::Run {
                    let st = Step::Exit { p: i, code: 0 };
                    self.apply_world(&st);
                    self.trace.push(st);
                    self.probe("drain_exit");
                    return true;
                }
            }
        }
        // nothing can ever be reported to this wait
        self.violate(
            "fg_wait_blocked_forever",
            "blocking wait with no reportable child and every foreground process settled".to_string(),
        );
        false
    }

    /// which of several reportable children the wait returns
    fn choose_report(&mut self, r: &[usize]) -> usize {
        if r.len() == 1 {
            return r[0];
        }
        self.probe("wait_choice_among_several");
        match &mut self.source {
            Source::Gen { rng, .. } => {
                let c = r[rng.below(r.len())];
                self.trace.push(Step::Report { p: c });
                c
            }
            Source::Replay { steps, pos } => {
                if *pos < steps.len() {
                    if let Step::Report { p } = steps[*pos] {
                        *pos += 1;
                        if r.contains(&p) {
                            self.trace.push(Step::Report { p });
                            return p;
                        }
                    }
                }
                r[0]
            }
        }
    }
}

struct Kernel {
    w: Arc<Mutex<World>>,
}

impl cv::SimKernel for Kernel {
    fn waitpid(&mut self, pid: i32, flags: i32) -> nix::Result<WaitStatus> {
        let mut w = self.w.lock().unwrap();
        w.waits += 1;
        if w.violation.is_some() {
            return Err(nix::Error::ECHILD);
        }
        // pid == -1: any child; pid < -1: any child of that process group; other forms are not used by cicada
        let group: Option<i32> = if pid < -1 { Some(-pid) } else { None };
        if pid != -1 && group.is_none() {
            w.violate("harness_unexpected", format!("waitpid({})", pid));
            return Err(nix::Error::ECHILD);
        }
        let nohang = flags & WNOHANG != 0;
        w.wait_group = group;
        if !nohang {
            if let Some(f) = w.fg.as_mut() {
                f.waited = true;
                let g = f.gid;
                if w.tty_pgrp != g {
                    let t = w.tty_pgrp;
                    w.violate("tty_not_job_in_fg", format!("terminal owner {} while waiting for foreground group {}", t, g));
                    return Err(nix::Error::ECHILD);
                }
                if w.fg_all_settled() {
                    w.violate(
                        "fg_wait_late",
                        "another blocking wait although every foreground process has exited or is stopped".to_string(),
                    );
                    return Err(nix::Error::ECHILD);
                }
            } else {
                w.violate("harness_unexpected", "blocking wait outside a foreground wait".to_string());
                return Err(nix::Error::ECHILD);
            }
        }
        loop {
            let r: Vec<usize> = w.reportable().into_iter().filter(|i| group.map_or(true, |g| w.procs[*i].pgid == g)).collect();
            if !r.is_empty() {
                let i = w.choose_report(&r);
                let name = w.pname(w.procs[i].pid);
                let pid_raw = w.procs[i].pid;
                let is_fg = w.fg.as_ref().map_or(false, |f| f.pids.contains(&pid_raw)) && !nohang;
                if !nohang && !is_fg {
                    w.probe("bg_event_consumed_by_fg_wait");
                }
                let p = Pid::from_raw(pid_raw);
                let res = match w.procs[i].state {
                    PState::Zombie(t) => {
                        if !nohang {
                            if let Some(f) = w.fg.as_mut() {
                                if f.pids.last() == Some(&pid_raw) {
                                    f.last_reaped_in_wait = true;
                                }
                            }
                        }
                        w.procs[i].state = PState::Reaped(t);
                        w.procs[i].pending = Pending::None;
                        match t {
                            Term::Exit(c) => {
                                w.ev(format!("wait-> exited {} {}", name, c));
                                WaitStatus::Exited(p, c)
                            }
                            Term::Sig(s) => {
                                w.ev(format!("wait-> signaled {} {}", name, s));
                                WaitStatus::Signaled(p, Signal::try_from(s).unwrap_or(Signal::SIGKILL), false)
                            }
                        }
                    }
                    _ => match w.procs[i].pending {
                        Pending::Stop(s) => {
                            w.procs[i].pending = Pending::None;
                            w.ev(format!("wait-> stopped {}", name));
                            WaitStatus::Stopped(p, Signal::try_from(s).unwrap_or(Signal::SIGSTOP))
                        }
                        _ => {
                            w.procs[i].pending = Pending::None;
                            w.ev(format!("wait-> continued {}", name));
                            WaitStatus::Continued(p)
                        }
                    },
                };
                return Ok(res);
            }
            if !w.procs.iter().any(|p| !matches!(p.state, PState::Reaped(_)) && group.map_or(true, |g| p.pgid == g)) {
                w.ev("wait-> ECHILD".to_string());
                return Err(nix::Error::ECHILD);
            }
            if nohang {
                return Ok(WaitStatus::StillAlive);
            }
            w.advance_world();
            if w.violation.is_some() {
                return Err(nix::Error::ECHILD);
            }
        }
    }

    fn killpg(&mut self, pgid: i32, sig: i32) -> i32 {
        let mut w = self.w.lock().unwrap();
        let jn = w.jobs.iter().position(|j| j.gid == pgid).map_or(-1, |x| x as i32);
        w.ev(format!("killpg j{} {}", jn, sig));
        if sig == libc::SIGCONT {
            for i in 0..w.procs.len() {
                if w.procs[i].pgid == pgid && w.procs[i].state == PState::Stop {
                    w.procs[i].state = PState::Run;
                    w.procs[i].pending = Pending::Cont;
                }
            }
        }
        0
    }

    fn kill(&mut self, pid: i32, sig: i32) -> i32 {
        let mut w = self.w.lock().unwrap();
        let name = w.pname(pid);
        w.ev(format!("kill-one {} {}", name, sig));
        if sig == libc::SIGCONT {
            if let Some(i) = w.idx_of_pid(pid) {
                if w.procs[i].state == PState::Stop {
                    w.procs[i].state = PState::Run;
                    w.procs[i].pending = Pending::Cont;
                }
            }
        }
        0
    }

    fn tcsetpgrp(&mut self, _fd: i32, pgid: i32) -> i32 {
        let mut w = self.w.lock().unwrap();
        let who = if pgid == SHELL_PGID {
            "shell".to_string()
        } else {
            format!("j{}", w.jobs.iter().position(|j| j.gid == pgid).map_or(-1, |x| x as i32))
        };
        w.ev(format!("tcsetpgrp {}", who));
        w.tty_pgrp = pgid;
        0
    }

    fn getpgid(&mut self, pid: i32) -> i32 {
        let w = self.w.lock().unwrap();
        if pid == 0 {
            return SHELL_PGID;
        }
        match w.idx_of_pid(pid) {
            Some(i) => w.procs[i].pgid,
            None => -1,
        }
    }
}

// ---------------------------------------------------------------- one run

struct RunResult {
    trace: Vec<Step>,
    violation: Option<Violation>,
    hash: u64,
    log: Option<Vec<String>>,
    probes: BTreeMap<&'static str, u64>,
    steps: u64,
    waits: u64,
    handler_mode: bool,
    state_hashes: Vec<u64>,
}

fn table_snapshot(sh: &cv::Shell) -> Vec<(i32, i32, Vec<i32>, String)> {
    let mut v: Vec<(i32, i32, Vec<i32>, String)> = sh
        .jobs
        .iter()
        .map(|(k, j)| {
            let mut p = j.pids.clone();
            p.sort();
            let _ = k;
            (j.id, j.gid, p, j.status.clone())
        })
        .collect();
    v.sort();
    v
}

fn check_structure(w: &mut World, sh: &cv::Shell) {
    let mut seen_pids: HashSet<i32> = HashSet::new();
    let mut seen_ids: HashSet<i32> = HashSet::new();
    let mut problems: Vec<String> = Vec::new();
    let mut keys: Vec<&i32> = sh.jobs.keys().collect();
    keys.sort();
    for k in keys {
        let j = &sh.jobs[k];
        if j.id != *k {
            problems.push(format!("job stored under key {} has id {}", k, j.id));
        }
        if !seen_ids.insert(j.id) {
            problems.push(format!("duplicate id {}", j.id));
        }
        if j.pids.is_empty() {
            problems.push(format!("job {} has no process", j.id));
        }
        for pid in &j.pids {
            if !seen_pids.insert(*pid) {
                problems.push(format!("{} listed twice", w.pname(*pid)));
            }
            match w.idx_of_pid(*pid) {
                Some(i) => {
                    let home = w.jobs.get(w.procs[i].job).map(|m| m.gid);
                    if home != Some(j.gid) {
                        problems.push(format!("{} listed in a foreign job", w.pname(*pid)));
                    }
                }
                None => problems.push(format!("unknown pid {}", pid)),
            }
        }
    }
    if !problems.is_empty() {
        w.violate("table_structure", problems.join("; "));
    }
}

/// expected table from the model: gid -> (live pids, status)
fn expected_table(w: &World) -> BTreeMap<i32, (Vec<i32>, &'static str)> {
    let mut m = BTreeMap::new();
    for j in &w.jobs {
        let live: Vec<usize> = j.procs.iter().copied().filter(|p| w.procs[*p].live()).collect();
        if live.is_empty() {
            continue;
        }
        let mut pids: Vec<i32> = live.iter().map(|p| w.procs[*p].pid).collect();
        pids.sort();
        let all_stopped = live.iter().all(|p| w.procs[*p].state == PState::Stop);
        m.insert(j.gid, (pids, if all_stopped { "Stopped" } else { "Running" }));
    }
    m
}

fn compare_table(w: &World, sh: &cv::Shell) -> Option<(String, String)> {
    let exp = expected_table(w);
    let mut act: BTreeMap<i32, (Vec<i32>, String)> = BTreeMap::new();
    for j in sh.jobs.values() {
        let mut p = j.pids.clone();
        p.sort();
        act.insert(j.gid, (p, j.status.clone()));
    }
    let jn = |gid: i32| format!("j{}", w.jobs.iter().position(|j| j.gid == gid).map_or(-1, |x| x as i32));
    for (gid, (pids, st)) in &act {
        match exp.get(gid) {
            None => return Some(("ghost_job".to_string(), format!("{} listed ({}) but has no live process", jn(*gid), st))),
            Some((epids, est)) => {
                if epids != pids {
                    let names = |v: &Vec<i32>| v.iter().map(|p| w.pname(*p)).collect::<Vec<_>>().join(",");
                    return Some(("pids_mismatch".to_string(), format!("{} lists [{}] but live are [{}]", jn(*gid), names(pids), names(epids))));
                }
                if est != st {
                    return Some(("state_mismatch".to_string(), format!("{} shown {} but should be {}", jn(*gid), st, est)));
                }
            }
        }
    }
    for gid in exp.keys() {
        if !act.contains_key(gid) {
            return Some(("missing_job".to_string(), format!("{} has a live process but is not listed", jn(*gid))));
        }
    }
    None
}

fn model_state_hash(w: &World, sh: &cv::Shell) -> u64 {
    // abstract state: per model job the multiset of (state,pending), the table view, parked-map sizes
    let mut h: u64 = 0xcbf29ce484222325;
    for j in &w.jobs {
        let mut s = String::new();
        for p in &j.procs {
            let pr = &w.procs[*p];
            s.push(match pr.state {
                PState::Run => 'R',
                PState::Stop => 'T',
                PState::Zombie(_) => 'Z',
                PState::Reaped(_) => 'x',
            });
            s.push(match pr.pending {
                Pending::None => '-',
                Pending::Stop(_) => 's',
                Pending::Cont => 'c',
            });
        }
        if s.chars().all(|c| c == 'x' || c == '-') {
            continue;
        }
        match sh.jobs.values().find(|x| x.gid == j.gid) {
            Some(t) => s.push_str(&format!("|{}:{}:{}", t.pids.len(), t.status, t.pids_stopped.len())),
            None => s.push_str("|absent"),
        }
        fnv(&mut h, &s);
    }
    let (a, b, c, d) = cv::verif_parked_snapshot();
    fnv(&mut h, &format!("{}.{}.{}.{}", a.len(), b.len(), c.len(), d.len()));
    h
}

fn draw_cfg(rng: &mut Rng, max_events: usize) -> GenCfg {
    let onoff = |rng: &mut Rng, pct: u32, w: u32| if rng.chance(pct) { w } else { 0 };
    GenCfg {
        handler_mode: rng.chance(30),
        max_jobs: 1 + rng.below(3),
        max_procs: 1 + rng.below(3),
        max_events: 3 + rng.below(max_events.saturating_sub(2).max(1)),
        max_lines: 3 + rng.below(10),
        w_stop: onoff(rng, 80, 4),
        w_cont: onoff(rng, 85, 4),
        w_exit: 3,
        w_kill: onoff(rng, 70, 2),
        w_fgbg: onoff(rng, 75, 3),
        w_jobs: onoff(rng, 50, 1),
        w_launch_bg: onoff(rng, 80, 3),
        prompt_event_pct: [10, 30, 50, 70][rng.below(4)],
        batch_pct: [0, 20, 40, 70][rng.below(4)],
        reuse_pids: rng.chance(25),
        w_leave: onoff(rng, 25, 1),
    }
}

fn gen_pids(rng: &mut Rng, w: &World, n: usize, reuse: bool) -> Vec<i32> {
    let mut v: Vec<i32> = Vec::new();
    let mut guard = 0;
    while v.len() < n && guard < 1000 {
        guard += 1;
        let mut c = 100 + rng.below(48) as i32;
        if reuse && rng.chance(60) {
            // the kernel may hand out the pid of a process that has been reaped
            let dead: Vec<i32> = w.procs.iter().filter(|p| matches!(p.state, PState::Reaped(_))).map(|p| p.pid).collect();
            if !dead.is_empty() {
                c = dead[rng.below(dead.len())];
            }
        }
        // (a number stays allocated while it is the group id of a live process)
        let group_alive = w.procs.iter().any(|p| p.pgid == c && !matches!(p.state, PState::Reaped(_)));
        if v.contains(&c) || w.pid_in_use(c) || group_alive || (!reuse && w.procs.iter().any(|p| p.pid == c)) {
            continue;
        }
        v.push(c);
    }
    v
}

/// next step at the prompt (Gen mode)
fn gen_prompt_step(w: &mut World, sh: &cv::Shell) -> Option<Step> {
    let live_jobs = w.live_jobs();
    let has_live = w.procs.iter().any(|p| p.live());
    let (cfg, lines_left, events_left) = match &w.source {
        Source::Gen { cfg, lines_left, events_left, .. } => (cfg.clone(), *lines_left, *events_left),
        _ => return None,
    };
    if lines_left == 0 {
        return None;
    }
    // an event while the shell sits at the prompt?
    let ev = match &mut w.source {
        Source::Gen { rng, .. } => has_live && events_left > 0 && rng.chance(cfg.prompt_event_pct),
        _ => false,
    };
    if ev {
        if let Some(st) = w.gen_world_event(false) {
            return Some(st);
        }
    }
    let table_ids: Vec<i32> = {
        let mut k: Vec<i32> = sh.jobs.keys().copied().collect();
        k.sort();
        k
    };
    let rng = match &mut w.source {
        Source::Gen { rng, lines_left, .. } => {
            *lines_left -= 1;
            rng
        }
        _ => return None,
    };
    let mut opts: Vec<(u32, u8)> = Vec::new();
    if live_jobs < cfg.max_jobs {
        opts.push((4, 0)); // launch fg
        opts.push((cfg.w_launch_bg, 1));
    }
    if !table_ids.is_empty() {
        opts.push((cfg.w_fgbg, 2));
        opts.push((cfg.w_fgbg, 3));
        opts.push((cfg.w_jobs, 4));
    }
    opts.push((2, 5)); // empty line
    if cfg.handler_mode {
        opts.push((3, 6));
    }
    opts.push((2, 7)); // check
    let total: u32 = opts.iter().map(|x| x.0).sum();
    let mut r = (rng.next() % total as u64) as u32;
    let mut kind = 5;
    for (wt, k) in &opts {
        if r < *wt {
            kind = *k;
            break;
        }
        r -= *wt;
    }
    let st = match kind {
        0 | 1 => {
            let n = 1 + rng.below(cfg.max_procs);
            let mut r2 = rng.clone();
            let pids = gen_pids(&mut r2, w, n, cfg.reuse_pids);
            if let Source::Gen { rng, .. } = &mut w.source {
                *rng = r2;
            }
            Step::Launch { bg: kind == 1, pids }
        }
        2 => Step::Fg { slot: rng.below(table_ids.len()) },
        3 => Step::Bg { slot: rng.below(table_ids.len()) },
        4 => Step::Jobs,
        6 => Step::Handler,
        7 => Step::Check,
        _ => Step::Empty,
    };
    Some(st)
}

fn next_prompt_step(wl: &Arc<Mutex<World>>, sh: &cv::Shell) -> Option<Step> {
    let mut w = wl.lock().unwrap();
    if matches!(w.source, Source::Gen { .. }) {
        return gen_prompt_step(&mut w, sh);
    }
    if let Source::Replay { steps, pos } = &mut w.source {
        if *pos < steps.len() {
            let s = steps[*pos].clone();
            *pos += 1;
            return Some(s);
        }
    }
    None
}

fn poll(wl: &Arc<Mutex<World>>, sh: &mut cv::Shell, handler_mode: bool) {
    wl.lock().unwrap().ev("poll".to_string());
    cv::try_wait_bg_jobs(sh, true, handler_mode);
}

/// after a foreground wait returned
fn check_fg_return(wl: &Arc<Mutex<World>>, status: i32, what: &str) {
    let mut w = wl.lock().unwrap();
    let f = match w.fg.take() {
        Some(f) => f,
        None => return,
    };
    if w.violation.is_some() {
        return;
    }
    for pid in &f.pids {
        if let Some(i) = w.idx_of_pid(*pid) {
            // judged against what has been delivered: a continuation whose
            // report is still pending in the kernel cannot be known to the shell
            if w.procs[i].state == PState::Run && w.procs[i].pending != Pending::Cont {
                let n = w.pname(*pid);
                w.violate("fg_wait_early", format!("{} returned while {} is still running", what, n));
                return;
            }
        }
    }
    if !f.waited {
        // the builtin did not wait at all (e.g. the job had already gone)
        w.ev(format!("{} returned {} without waiting", what, status));
        return;
    }
    if !f.last_reaped_in_wait {
        // the last process did not terminate during this wait (it is stopped,
        // or it had gone before the job was brought to the foreground)
        w.ev(format!("{} returned {}", what, if status >= 128 { 128 } else { status.min(1) }));
        return;
    }
    if let Some(last) = f.pids.last() {
        if let Some(i) = w.idx_of_pid(*last) {
            if let PState::Reaped(t) = w.procs[i].state {
                let want = match t {
                    Term::Exit(c) => c,
                    Term::Sig(s) => 128 + s,
                };
                if want != status {
                    w.violate("fg_status_mismatch", format!("{} yielded {} but the last process ended with {}", what, status, want));
                    return;
                }
                if f.pids.len() > 1 {
                    w.probe("multi_stage_status_checked");
                }
            }
        }
    }
    w.ev(format!("{} returned {}", what, status));
}

fn quiescence_check(wl: &Arc<Mutex<World>>, sh: &mut cv::Shell, handler_mode: bool, what: &str) {
    if wl.lock().unwrap().violation.is_some() {
        return;
    }
    wl.lock().unwrap().ev(format!("check {}", what));
    let mut prev = (table_snapshot(sh), cv::verif_parked_snapshot());
    let mut first_mismatch = false;
    for round in 0..4 {
        if handler_mode {
            cv::handle_sigchld(libc::SIGCHLD);
        }
        cv::try_wait_bg_jobs(sh, true, handler_mode);
        if round == 0 {
            let w = wl.lock().unwrap();
            first_mismatch = compare_table(&w, sh).is_some();
        }
        let cur = (table_snapshot(sh), cv::verif_parked_snapshot());
        if cur == prev && round > 0 {
            break;
        }
        prev = cur;
    }
    let mut w = wl.lock().unwrap();
    if w.violation.is_some() {
        return;
    }
    check_structure(&mut w, sh);
    if w.violation.is_some() {
        return;
    }
    match compare_table(&w, sh) {
        Some((sub, detail)) => {
            w.violate(&format!("table_mismatch.{}", sub), detail);
        }
        None => {
            if first_mismatch {
                w.probe("one_poll_lag");
            }
        }
    }
}

fn run_one(source: Source, handler_mode: bool, keep_log: bool) -> RunResult {
    cv::verif_parked_clear();
    let wl = Arc::new(Mutex::new(World::new(source, handler_mode, keep_log)));
    cv::install_sim(Box::new(Kernel { w: wl.clone() }));
    let mut sh = cv::Shell::new();
    sh.has_terminal = true;
    let mut state_hashes: Vec<u64> = Vec::new();
    let mut guard = 0;
    loop {
        guard += 1;
        if guard > 400 {
            break;
        }
        {
            let mut w = wl.lock().unwrap();
            if w.violation.is_some() {
                break;
            }
            if w.tty_pgrp != SHELL_PGID {
                let t = w.tty_pgrp;
                w.violate("tty_not_shell_at_prompt", format!("terminal owner is group {} at the prompt", t));
                break;
            }
            check_structure(&mut w, &sh);
            if w.violation.is_some() {
                break;
            }
            state_hashes.push(model_state_hash(&w, &sh));
        }
        let st = match next_prompt_step(&wl, &sh) {
            Some(s) => s,
            None => break,
        };
        wl.lock().unwrap().steps += 1;
        match &st {
            s if s.is_world() => {
                let mut w = wl.lock().unwrap();
                if w.apply_world(s) {
                    w.trace.push(s.clone());
                    w.probe("event_at_prompt");
                }
            }
            Step::Report { .. } | Step::Deliver => {}
            Step::Launch { bg, pids } => {
                let ok = {
                    let w = wl.lock().unwrap();
                    // a pid number is reused only after its process was reaped, its group has no live
                    // member, and the shell has dropped it from its table (wrap-around takes a while)
                    let known: HashSet<i32> = sh.jobs.values().flat_map(|j| j.pids.iter().copied().chain(std::iter::once(j.gid))).collect();
                    let group_alive = |c: i32| w.procs.iter().any(|p| p.pgid == c && !matches!(p.state, PState::Reaped(_)));
                    !pids.is_empty() && pids.len() <= 3 && w.live_jobs() < 3 && !pids.iter().any(|p| w.pid_in_use(*p))
                        && !pids.iter().any(|p| known.contains(p) || group_alive(*p)) && {
                        let mut d = pids.clone();
                        d.sort();
                        d.dedup();
                        d.len() == pids.len()
                    }
                };
                if !ok {
                    continue;
                }
                let gid = pids[0];
                let used: BTreeSet<i32> = sh.jobs.keys().copied().collect();
                let mut want_id = 1;
                while used.contains(&want_id) {
                    want_id += 1;
                }
                {
                    let mut w = wl.lock().unwrap();
                    let ji = w.jobs.len();
                    let mut idxs = Vec::new();
                    for p in pids {
                        idxs.push(w.procs.len());
                        w.procs.push(Proc { pid: *p, job: ji, pgid: gid, state: PState::Run, pending: Pending::None, left: false });
                    }
                    w.jobs.push(MJob { gid, procs: idxs });
                    w.trace.push(st.clone());
                    w.ev(format!("launch j{} n={} bg={}", ji, pids.len(), bg));
                    let mut sorted = pids.clone();
                    sorted.sort();
                    if &sorted != pids {
                        w.probe("non_monotone_pids_in_job");
                    }
                    if want_id <= used.len() as i32 {
                        w.probe("id_reused_below_max");
                    }
                }
                // what the parent branch of run_single_program does per stage
                for (i, p) in pids.iter().enumerate() {
                    if i == 0 && !*bg {
                        unsafe { cv::give_terminal_to(*p) };
                    }
                    sh.insert_job(gid, *p, &format!("cmd{}", i), "Running", *bg);
                }
                {
                    let mut w = wl.lock().unwrap();
                    match sh.jobs.values().find(|j| j.gid == gid) {
                        Some(j) => {
                            if j.id != want_id {
                                let id = j.id;
                                w.violate("id_not_smallest", format!("new job got id {} but {} is the smallest unused", id, want_id));
                            }
                        }
                        None => w.violate("table_mismatch.missing_job", "job not registered at launch".to_string()),
                    }
                }
                if !*bg {
                    wl.lock().unwrap().fg = Some(FgWait { gid, pids: pids.clone(), waited: false, last_reaped_in_wait: false });
                    let cr = cv::wait_fg_job(&mut sh, gid, pids);
                    check_fg_return(&wl, cr.status, "foreground wait");
                    unsafe { cv::give_terminal_to(SHELL_PGID) };
                }
                poll(&wl, &mut sh, handler_mode);
            }
            Step::Fg { slot } | Step::Bg { slot } => {
                let mut ids: Vec<i32> = sh.jobs.keys().copied().collect();
                ids.sort();
                if ids.is_empty() {
                    continue;
                }
                let id = ids[*slot % ids.len()];
                let is_fg = matches!(st, Step::Fg { .. });
                let (gid, pids) = {
                    let j = &sh.jobs[&id];
                    // the processes the table lists, in the order the pipeline was launched (the model's
                    // order, not whatever order the table keeps them in): "the last process" is the last stage
                    let w = wl.lock().unwrap();
                    let mut ordered: Vec<i32> = Vec::new();
                    if let Some(mj) = w.jobs.iter().rev().find(|mj| mj.gid == j.gid) {
                        for pi in &mj.procs {
                            let pid = w.procs[*pi].pid;
                            if j.pids.contains(&pid) {
                                ordered.push(pid);
                            }
                        }
                    }
                    for pid in &j.pids {
                        if !ordered.contains(pid) {
                            ordered.push(*pid);
                        }
                    }
                    (j.gid, ordered)
                };
                {
                    let mut w = wl.lock().unwrap();
                    w.trace.push(st.clone());
                    let jn = w.jobs.iter().position(|j| j.gid == gid).map_or(-1, |x| x as i32);
                    w.ev(format!("{} j{}", if is_fg { "fg" } else { "bg" }, jn));
                    if is_fg {
                        w.fg = Some(FgWait { gid, pids, waited: false, last_reaped_in_wait: false });
                        w.probe("fg_builtin");
                    } else {
                        w.probe("bg_builtin");
                    }
                }
                let line = format!("{} {}", if is_fg { "fg" } else { "bg" }, id);
                let crs = cv::run_command_line(&mut sh, &line, true, false);
                if is_fg {
                    let status = crs.last().map_or(0, |c| c.status);
                    check_fg_return(&wl, status, "fg");
                }
                poll(&wl, &mut sh, handler_mode);
            }
            Step::Jobs => {
                {
                    let mut w = wl.lock().unwrap();
                    w.trace.push(st.clone());
                    w.ev("jobs".to_string());
                }
                cv::run_command_line(&mut sh, "jobs", true, false);
                poll(&wl, &mut sh, handler_mode);
            }
            Step::Empty => {
                wl.lock().unwrap().trace.push(st.clone());
                poll(&wl, &mut sh, handler_mode);
            }
            Step::Handler => {
                if handler_mode {
                    {
                        let mut w = wl.lock().unwrap();
                        w.trace.push(st.clone());
                        w.ev("handler".to_string());
                        w.probe("async_handler");
                    }
                    cv::handle_sigchld(libc::SIGCHLD);
                }
            }
            Step::Check => {
                wl.lock().unwrap().trace.push(st.clone());
                quiescence_check(&wl, &mut sh, handler_mode, "mid");
            }
            _ => {}
        }
    }
    // end of scenario: the table must match; then everything dies and the table must drain
    quiescence_check(&wl, &mut sh, handler_mode, "end");
    {
        let mut w = wl.lock().unwrap();
        if w.violation.is_none() {
            for i in 0..w.procs.len() {
                if w.procs[i].live() {
                    w.procs[i].state = PState::Zombie(Term::Sig(libc::SIGKILL));
                    w.procs[i].pending = Pending::None;
                }
            }
            w.ev("killall".to_string());
        }
    }
    quiescence_check(&wl, &mut sh, handler_mode, "final");
    cv::remove_sim();
    let w = Arc::try_unwrap(wl).ok().map(|m| m.into_inner().unwrap());
    let w = match w {
        Some(w) => w,
        None => panic!("world still shared"),
    };
    RunResult {
        trace: w.trace,
        violation: w.violation,
        hash: w.hash,
        log: w.log,
        probes: w.probes,
        steps: w.steps,
        waits: w.waits,
        handler_mode: w.handler_mode,
        state_hashes,
    }
}

fn run_generated(seed: u64, index: u64, max_events: usize, keep_log: bool) -> RunResult {
    let mut rng = Rng::new(seed, index);
    let cfg = draw_cfg(&mut rng, max_events);
    let hm = cfg.handler_mode;
    let src = Source::Gen { rng, events_left: cfg.max_events, lines_left: cfg.max_lines, cfg };
    run_one(src, hm, keep_log)
}

fn run_replay(steps: &[Step], handler_mode: bool, keep_log: bool) -> RunResult {
    run_one(Source::Replay { steps: steps.to_vec(), pos: 0 }, handler_mode, keep_log)
}

// ---------------------------------------------------------------- shrinking

fn class_of(r: &RunResult) -> Option<String> {
    r.violation.as_ref().map(|v| v.class.clone())
}

fn shrink(steps: Vec<Step>, handler_mode: bool, class: &str) -> Vec<Step> {
    let mut cur = steps;
    let mut budget = 600;
    let mut chunk = (cur.len() / 2).max(1);
    while chunk >= 1 && budget > 0 {
        let mut i = 0;
        let mut progressed = false;
        while i < cur.len() && budget > 0 {
            let end = (i + chunk).min(cur.len());
            let mut cand = cur[..i].to_vec();
            cand.extend_from_slice(&cur[end..]);
            budget -= 1;
            let r = run_replay(&cand, handler_mode, false);
            if class_of(&r).as_deref() == Some(class) {
                cur = cand;
                progressed = true;
            } else {
                i += chunk;
            }
        }
        if chunk == 1 && !progressed {
            break;
        }
        if !progressed {
            chunk /= 2;
        } else if chunk > 1 {
            chunk = (chunk / 2).max(1);
        }
    }
    // simplify arguments
    for i in 0..cur.len() {
        let simpler = match &cur[i] {
            Step::Exit { p, code } if *code != 0 => Some(Step::Exit { p: *p, code: 0 }),
            Step::Kill { p, sig } if *sig != 9 => Some(Step::Kill { p: *p, sig: 9 }),
            Step::Stop { p, sig } if *sig != libc::SIGTSTP => Some(Step::Stop { p: *p, sig: libc::SIGTSTP }),
            _ => None,
        };
        if let Some(s) = simpler {
            let mut cand = cur.clone();
            cand[i] = s;
            let r = run_replay(&cand, handler_mode, false);
            if class_of(&r).as_deref() == Some(class) {
                cur = cand;
            }
        }
    }
    cur
}

// ---------------------------------------------------------------- batch / worker / cli

fn scenario_json(seed: u64, index: i64, handler_mode: bool, steps: &[Step], r: &RunResult) -> Value {
    json!({
        "engine": "ksim",
        "seed": seed,
        "run_index": index,
        "handler_mode": handler_mode,
        "steps": steps.iter().map(|s| s.to_json()).collect::<Vec<_>>(),
        "violation": r.violation.as_ref().map(|v| json!({"class": v.class, "detail": v.detail})),
        "log_hash": format!("{:016x}", r.hash),
        "log": r.log,
    })
}

fn arg_val(args: &[String], name: &str) -> Option<String> {
    args.iter().position(|a| a == name).and_then(|i| args.get(i + 1).cloned())
}

fn silence_stdio() -> i32 {
    // cicada prints job notices to 1 and 2; keep a private copy of stdout for results
    unsafe {
        let keep = libc::fcntl(1, libc::F_DUPFD_CLOEXEC, 100);
        let null = libc::open(b"/dev/null\0".as_ptr() as *const libc::c_char, libc::O_WRONLY);
        libc::dup2(null, 1);
        libc::dup2(null, 2);
        libc::close(null);
        keep
    }
}

fn worker(args: &[String]) -> i32 {
    let seed: u64 = arg_val(args, "--seed").and_then(|x| x.parse().ok()).unwrap_or(1);
    let first: u64 = arg_val(args, "--first").and_then(|x| x.parse().ok()).unwrap_or(0);
    let count: u64 = arg_val(args, "--count").and_then(|x| x.parse().ok()).unwrap_or(1000);
    let stride: u64 = arg_val(args, "--stride").and_then(|x| x.parse().ok()).unwrap_or(1);
    let max_events: usize = arg_val(args, "--events").and_then(|x| x.parse().ok()).unwrap_or(12);
    let out = arg_val(args, "--out").unwrap_or_else(|| "/dev/stdout".to_string());
    let emit_hashes: u64 = arg_val(args, "--emit-hashes").and_then(|x| x.parse().ok()).unwrap_or(0);
    let max_viol: usize = 40;
    silence_stdio();

    let mut probes: BTreeMap<String, u64> = BTreeMap::new();
    let mut runs_with_probe: BTreeMap<String, u64> = BTreeMap::new();
    let mut distinct: HashSet<u64> = HashSet::new();
    let mut states: HashSet<u64> = HashSet::new();
    let mut hashes: Vec<(u64, String)> = Vec::new();
    let mut violations: Vec<Value> = Vec::new();
    let mut viol_classes: BTreeMap<String, u64> = BTreeMap::new();
    let mut samples: Vec<Value> = Vec::new();
    let mut steps = 0u64;
    let mut waits = 0u64;
    let mut world_events = 0u64;
    let mut handler_runs = 0u64;
    let mut n = 0u64;
    let mut idx = first;
    while n < count {
        let r = run_generated(seed, idx, max_events, false);
        n += 1;
        steps += r.steps;
        waits += r.waits;
        world_events += r.trace.iter().filter(|s| s.is_world()).count() as u64;
        if r.handler_mode {
            handler_runs += 1;
        }
        for (k, v) in &r.probes {
            *probes.entry(k.to_string()).or_insert(0) += v;
            *runs_with_probe.entry(k.to_string()).or_insert(0) += 1;
        }
        let nontrivial = r.trace.iter().filter(|s| s.is_world()).count() >= 2
            && r.trace.iter().any(|s| matches!(s, Step::Launch { .. }));
        if nontrivial {
            distinct.insert(r.hash);
        }
        for h in &r.state_hashes {
            states.insert(*h);
        }
        if idx < emit_hashes {
            hashes.push((idx, format!("{:016x}", r.hash)));
        }
        if samples.len() < 2 && nontrivial && r.violation.is_none() && r.trace.len() >= 6 {
            samples.push(scenario_json(seed, idx as i64, r.handler_mode, &r.trace, &r));
        }
        if let Some(v) = &r.violation {
            *viol_classes.entry(v.class.clone()).or_insert(0) += 1;
            let seen = violations.iter().filter(|x| x["violation"]["class"] == v.class.as_str()).count();
            if seen < 3 && violations.len() < max_viol {
                // the recorded trace must replay to the same verdict before it is shrunk
                let r0 = run_replay(&r.trace, r.handler_mode, false);
                let faithful = class_of(&r0) == Some(v.class.clone()) && r0.hash == r.hash;
                let small = if faithful { shrink(r.trace.clone(), r.handler_mode, &v.class) } else { r.trace.clone() };
                let rr = run_replay(&small, r.handler_mode, true);
                let rr2 = run_replay(&small, r.handler_mode, true);
                let stable = faithful && class_of(&rr) == Some(v.class.clone()) && rr.hash == rr2.hash;
                let mut j = scenario_json(seed, idx as i64, r.handler_mode, &small, &rr);
                if rr.violation.is_none() {
                    // the recorded trace did not reproduce: report the original verdict, flagged unstable
                    j["violation"] = json!({"class": v.class, "detail": v.detail});
                    j["steps"] = json!(r.trace.iter().map(|s| s.to_json()).collect::<Vec<_>>());
                }
                j["original_steps"] = json!(r.trace.len());
                j["replay_stable"] = json!(stable);
                if !stable {
                    j["log2"] = json!(rr2.log);
                    j["class2"] = json!(class_of(&rr2));
                    j["orig_class"] = json!(v.class);
                }
                violations.push(j);
            }
        }
        idx += stride;
    }
    let res = json!({
        "runs": n,
        "steps": steps,
        "waits": waits,
        "world_events": world_events,
        "handler_runs": handler_runs,
        "probes": probes,
        "runs_with_probe": runs_with_probe,
        "distinct": distinct.iter().map(|h| format!("{:016x}", h)).collect::<Vec<_>>(),
        "states": states.iter().map(|h| format!("{:016x}", h)).collect::<Vec<_>>(),
        "hashes": hashes.iter().map(|(i, h)| json!([i, h])).collect::<Vec<_>>(),
        "violation_classes": viol_classes,
        "violations": violations,
        "samples": samples,
    });
    std::fs::write(&out, serde_json::to_string(&res).unwrap()).unwrap();
    0
}

fn replay(args: &[String]) -> i32 {
    let path = match args.get(0) {
        Some(p) => p.clone(),
        None => {
            eprintln!("usage: ksim replay FILE");
            return 2;
        }
    };
    let text = match std::fs::read_to_string(&path) {
        Ok(t) => t,
        Err(e) => {
            eprintln!("cannot read {}: {}", path, e);
            return 2;
        }
    };
    let v: Value = match serde_json::from_str(&text) {
        Ok(v) => v,
        Err(e) => {
            eprintln!("bad json: {}", e);
            return 2;
        }
    };
    let steps: Vec<Step> = v["steps"].as_array().map(|a| a.iter().filter_map(Step::from_json).collect()).unwrap_or_default();
    let hm = v["handler_mode"].as_bool().unwrap_or(false);
    let keep = silence_stdio();
    let r = run_replay(&steps, hm, true);
    let mut out = String::new();
    if let Some(l) = &r.log {
        for line in l {
            out.push_str(line);
            out.push('\n');
        }
    }
    let want_class = v["violation"]["class"].as_str().map(|s| s.to_string());
    let want_hash = v["log_hash"].as_str().map(|s| s.to_string());
    let got_hash = format!("{:016x}", r.hash);
    let code = match (&r.violation, &want_class) {
        (Some(vi), Some(wc)) if &vi.class == wc => {
            out.push_str(&format!("REPRODUCED class={} detail={}\n", vi.class, vi.detail));
            if want_hash.as_deref() != Some(got_hash.as_str()) {
                out.push_str(&format!("note: log hash differs (file {:?}, now {})\n", want_hash, got_hash));
            }
            1
        }
        (Some(vi), _) => {
            out.push_str(&format!("DIFFERENT class={} detail={}\n", vi.class, vi.detail));
            1
        }
        (None, _) => {
            out.push_str("NOT-REPRODUCED (no violation)\n");
            0
        }
    };
    unsafe {
        libc::write(keep, out.as_ptr() as *const libc::c_void, out.len());
    }
    code
}

/// Stub-fidelity interface: read one JSON scenario per line
/// {"n": <children>, "ops": [["stop",i,sig] | ["cont",i] | ["exit",i,code] | ["kill",i,sig] | ["drain"]]}
/// and print, per "drain", the reports a WNOHANG wait loop collects from the SimKernel.
fn kernel_cmd() -> i32 {
    use std::io::BufRead;
    let stdin = std::io::stdin();
    for line in stdin.lock().lines() {
        let line = match line {
            Ok(l) => l,
            Err(_) => break,
        };
        if line.trim().is_empty() {
            continue;
        }
        let v: Value = match serde_json::from_str(&line) {
            Ok(v) => v,
            Err(_) => {
                println!("null");
                continue;
            }
        };
        let n = v["n"].as_u64().unwrap_or(1) as usize;
        let wl = Arc::new(Mutex::new(World::new(Source::Replay { steps: vec![], pos: 0 }, false, false)));
        {
            let mut w = wl.lock().unwrap();
            let mut idxs = Vec::new();
            for i in 0..n {
                idxs.push(i);
                w.procs.push(Proc { pid: 1000 + i as i32, job: 0, pgid: 1000, state: PState::Run, pending: Pending::None, left: false });
            }
            w.jobs.push(MJob { gid: 1000, procs: idxs });
        }
        let mut k = Kernel { w: wl.clone() };
        let mut out: Vec<Value> = Vec::new();
        for op in v["ops"].as_array().cloned().unwrap_or_default() {
            let name = op[0].as_str().unwrap_or("");
            let i = op[1].as_u64().unwrap_or(0) as usize;
            let a = op[2].as_i64().unwrap_or(0) as i32;
            let st = match name {
                "stop" => Some(Step::Stop { p: i, sig: a }),
                "cont" => Some(Step::Cont { p: i }),
                "exit" => Some(Step::Exit { p: i, code: a }),
                "kill" => Some(Step::Kill { p: i, sig: a }),
                _ => None,
            };
            if let Some(st) = st {
                wl.lock().unwrap().apply_world(&st);
                continue;
            }
            if name == "drain" {
                let mut reps: Vec<String> = Vec::new();
                loop {
                    use cv::SimKernel;
                    match k.waitpid(-1, WNOHANG | libc::WUNTRACED | libc::WCONTINUED) {
                        Ok(WaitStatus::Exited(p, c)) => reps.push(format!("exited {} {}", p.as_raw() - 1000, c)),
                        Ok(WaitStatus::Signaled(p, sg, _)) => reps.push(format!("signaled {} {}", p.as_raw() - 1000, sg as i32)),
                        Ok(WaitStatus::Stopped(p, sg)) => reps.push(format!("stopped {} {}", p.as_raw() - 1000, sg as i32)),
                        Ok(WaitStatus::Continued(p)) => reps.push(format!("continued {}", p.as_raw() - 1000)),
                        Ok(WaitStatus::StillAlive) => break,
                        Ok(_) => break,
                        Err(_) => {
                            reps.push("echild".to_string());
                            break;
                        }
                    }
                }
                reps.sort();
                out.push(json!(reps));
            }
        }
        println!("{}", serde_json::to_string(&out).unwrap());
    }
    0
}

fn main() {
    let args: Vec<String> = std::env::args().collect();
    let code = match args.get(1).map(|s| s.as_str()) {
        Some("worker") => worker(&args[2..]),
        Some("replay") => replay(&args[2..]),
        Some("kernel") => kernel_cmd(),
        Some("replay2") => {
            let text = std::fs::read_to_string(&args[2]).unwrap();
            let v: Value = serde_json::from_str(&text).unwrap();
            let steps: Vec<Step> = v["steps"].as_array().map(|a| a.iter().filter_map(Step::from_json).collect()).unwrap_or_default();
            let hm = v["handler_mode"].as_bool().unwrap_or(false);
            let keep = silence_stdio();
            let mut out = String::new();
            for _ in 0..3 {
                let r = run_replay(&steps, hm, true);
                out.push_str(&format!("--- hash {:016x}\n{}\n", r.hash, r.log.unwrap().join("\n")));
            }
            unsafe { libc::write(keep, out.as_ptr() as *const libc::c_void, out.len()); }
            0
        }
        _ => {
            eprintln!("usage: ksim worker --seed S --first I --stride K --count N --events E --out FILE [--emit-hashes D] | ksim replay FILE");
            2
        }
    };
    std::process::exit(code);
}
