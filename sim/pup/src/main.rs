//! pup -- the puppet: the only external program the simulated workloads run.
//!
//! On start, before touching anything, it records how it was started (pid,
//! process group, argv, descriptor table, signal dispositions, limits), then
//! connects to the simulator (`PUP_CTL`) and from then on executes exactly one
//! micro-step per request. It never blocks on anything but the control
//! socket: reads and writes are guarded by poll(…, 0).
//!
//! Wire format: one text line per request and per reply.

use std::ffi::CString;

const CTL_FD_MIN: i32 = 500;

// The Rust runtime sets SIGPIPE to "ignore" before main(). The disposition the
// puppet was *started* with is therefore recorded by a constructor that the C
// runtime runs before any Rust start-up code.
static mut EARLY_SIGPIPE: usize = usize::MAX;

extern "C" fn record_early_sigpipe() {
    unsafe {
        let mut old: libc::sigaction = std::mem::zeroed();
        if libc::sigaction(libc::SIGPIPE, std::ptr::null(), &mut old) == 0 {
            EARLY_SIGPIPE = old.sa_sigaction;
        }
    }
}

#[used]
#[link_section = ".init_array"]
static EARLY_CTOR: extern "C" fn() = record_early_sigpipe;
const TLEN: usize = 4093;

fn crc32_table() -> [u32; 256] {
    let mut t = [0u32; 256];
    for i in 0..256u32 {
        let mut c = i;
        for _ in 0..8 {
            c = if c & 1 != 0 { 0xEDB88320 ^ (c >> 1) } else { c >> 1 };
        }
        t[i as usize] = c;
    }
    t
}

fn crc32(t: &[u32; 256], data: &[u8]) -> u32 {
    let mut c = 0xFFFF_FFFFu32;
    for b in data {
        c = t[((c ^ *b as u32) & 0xff) as usize] ^ (c >> 8);
    }
    c ^ 0xFFFF_FFFF
}

fn stream_table(seed: u64) -> Vec<u8> {
    (0..TLEN as u64)
        .map(|j| ((((seed + j).wrapping_mul(2654435761)) >> 13) & 0xff) as u8)
        .collect()
}

fn errno() -> i32 {
    unsafe { *libc::__errno_location() }
}

fn jstr(s: &str) -> String {
    let mut o = String::from("\"");
    for c in s.chars() {
        match c {
            '"' => o.push_str("\\\""),
            '\\' => o.push_str("\\\\"),
            '\n' => o.push_str("\\n"),
            '\r' => o.push_str("\\r"),
            '\t' => o.push_str("\\t"),
            c if (c as u32) < 0x20 => o.push_str(&format!("\\u{:04x}", c as u32)),
            c => o.push(c),
        }
    }
    o.push('"');
    o
}

fn hexs(b: &[u8]) -> String {
    let mut o = String::with_capacity(b.len() * 2);
    for x in b {
        o.push_str(&format!("{:02x}", x));
    }
    o
}

fn unhex(s: &str) -> Vec<u8> {
    let b = s.as_bytes();
    let mut o = Vec::with_capacity(b.len() / 2);
    let v = |c: u8| -> u8 {
        match c {
            b'0'..=b'9' => c - b'0',
            b'a'..=b'f' => c - b'a' + 10,
            b'A'..=b'F' => c - b'A' + 10,
            _ => 0,
        }
    };
    let mut i = 0;
    while i + 1 < b.len() {
        o.push(v(b[i]) << 4 | v(b[i + 1]));
        i += 2;
    }
    o
}

/// descriptor table without opening anything (no opendir: probe with fcntl)
fn fd_table(skip: i32) -> String {
    let mut items: Vec<String> = Vec::new();
    for fd in 0..1024 {
        if fd == skip {
            continue;
        }
        let fdflags = unsafe { libc::fcntl(fd, libc::F_GETFD) };
        if fdflags < 0 {
            continue;
        }
        let fl = unsafe { libc::fcntl(fd, libc::F_GETFL) };
        let mut st: libc::stat = unsafe { std::mem::zeroed() };
        let ok = unsafe { libc::fstat(fd, &mut st) } == 0;
        let off = unsafe { libc::lseek(fd, 0, libc::SEEK_CUR) };
        let path = CString::new(format!("/proc/self/fd/{}", fd)).unwrap();
        let mut buf = [0u8; 512];
        let n = unsafe { libc::readlink(path.as_ptr(), buf.as_mut_ptr() as *mut libc::c_char, buf.len()) };
        let link = if n > 0 { String::from_utf8_lossy(&buf[..n as usize]).to_string() } else { String::new() };
        items.push(format!(
            "{{\"fd\":{},\"dev\":{},\"ino\":{},\"mode\":{},\"fl\":{},\"off\":{},\"cloexec\":{},\"link\":{}}}",
            fd,
            if ok { st.st_dev as i64 } else { -1 },
            if ok { st.st_ino as i64 } else { -1 },
            if ok { st.st_mode as i64 } else { -1 },
            fl,
            off,
            if fdflags & libc::FD_CLOEXEC != 0 { "true" } else { "false" },
            jstr(&link)
        ));
    }
    format!("[{}]", items.join(","))
}

fn sig_dispositions() -> String {
    let sigs = [
        libc::SIGHUP, libc::SIGINT, libc::SIGQUIT, libc::SIGPIPE, libc::SIGTERM, libc::SIGCHLD, libc::SIGTSTP,
        libc::SIGTTIN, libc::SIGTTOU, libc::SIGCONT,
    ];
    let mut items = Vec::new();
    for s in sigs {
        let mut old: libc::sigaction = unsafe { std::mem::zeroed() };
        unsafe { libc::sigaction(s, std::ptr::null(), &mut old) };
        if s == libc::SIGPIPE {
            let early = unsafe { EARLY_SIGPIPE };
            if early != usize::MAX {
                old.sa_sigaction = early;
            }
        }
        let d = if old.sa_sigaction == libc::SIG_DFL {
            "dfl"
        } else if old.sa_sigaction == libc::SIG_IGN {
            "ign"
        } else {
            "handler"
        };
        items.push(format!("\"{}\":\"{}\"", s, d));
    }
    let mut mask: libc::sigset_t = unsafe { std::mem::zeroed() };
    unsafe { libc::sigprocmask(libc::SIG_BLOCK, std::ptr::null(), &mut mask) };
    let mut blocked = Vec::new();
    for s in 1..32 {
        if unsafe { libc::sigismember(&mask, s) } == 1 {
            blocked.push(s.to_string());
        }
    }
    format!("{{{},\"blocked\":[{}]}}", items.join(","), blocked.join(","))
}

struct Ctl {
    fd: i32,
    rbuf: Vec<u8>,
}

impl Ctl {
    fn send(&self, line: &str) {
        let mut data = line.as_bytes().to_vec();
        data.push(b'\n');
        let mut off = 0;
        while off < data.len() {
            let n = unsafe {
                libc::send(self.fd, data[off..].as_ptr() as *const libc::c_void, data.len() - off, libc::MSG_NOSIGNAL)
            };
            if n <= 0 {
                if n < 0 && errno() == libc::EINTR {
                    continue;
                }
                unsafe { libc::_exit(96) };
            }
            off += n as usize;
        }
    }

    fn recv_line(&mut self) -> String {
        loop {
            if let Some(pos) = self.rbuf.iter().position(|b| *b == b'\n') {
                let line: Vec<u8> = self.rbuf.drain(..=pos).collect();
                return String::from_utf8_lossy(&line[..line.len() - 1]).to_string();
            }
            let mut b = [0u8; 4096];
            let n = unsafe { libc::recv(self.fd, b.as_mut_ptr() as *mut libc::c_void, b.len(), 0) };
            if n <= 0 {
                if n < 0 && errno() == libc::EINTR {
                    continue;
                }
                // simulator gone
                unsafe { libc::_exit(96) };
            }
            self.rbuf.extend_from_slice(&b[..n as usize]);
        }
    }
}

fn poll1(fd: i32, events: i16) -> i16 {
    let mut p = libc::pollfd { fd, events, revents: 0 };
    let r = unsafe { libc::poll(&mut p, 1, 0) };
    if r < 0 {
        return 0;
    }
    p.revents
}

/// write `data` in <= 4096-byte pieces, each only when poll says writable;
/// returns (written, errno or 0, would_block)
fn guarded_write(fd: i32, data: &[u8]) -> (usize, i32, bool) {
    guarded_write_mode(fd, data, false)
}

/// `all`: the target is drained by somebody who is not an actor of the simulation (the
/// terminal's master side): wait until everything is written, so that the outcome does not
/// depend on how fast it is drained.
fn guarded_write_mode(fd: i32, data: &[u8], all: bool) -> (usize, i32, bool) {
    let mut done = 0;
    while done < data.len() {
        let rev = if all {
            let mut p = libc::pollfd { fd, events: libc::POLLOUT, revents: 0 };
            unsafe { libc::poll(&mut p, 1, 200) };
            if p.revents == 0 {
                continue;
            }
            p.revents
        } else {
            poll1(fd, libc::POLLOUT)
        };
        if rev & (libc::POLLOUT | libc::POLLERR | libc::POLLHUP | libc::POLLNVAL) == 0 {
            return (done, 0, true);
        }
        let end = (done + 4096).min(data.len());
        let n = unsafe { libc::write(fd, data[done..end].as_ptr() as *const libc::c_void, end - done) };
        if n < 0 {
            let e = errno();
            if e == libc::EINTR {
                continue;
            }
            if e == libc::EAGAIN {
                return (done, 0, true);
            }
            return (done, e, false);
        }
        done += n as usize;
    }
    (done, 0, false)
}

fn main() {
    let args: Vec<String> = std::env::args().collect();
    // ---- before touching anything: how were we started?
    let fds = fd_table(-1);
    let sigs = sig_dispositions();
    let (pid, ppid, pgrp, sid) = unsafe { (libc::getpid(), libc::getppid(), libc::getpgrp(), libc::getsid(0)) };
    let mut rl = libc::rlimit { rlim_cur: 0, rlim_max: 0 };
    unsafe { libc::getrlimit(libc::RLIMIT_NOFILE, &mut rl) };
    let cwd = std::env::current_dir().map(|p| p.to_string_lossy().to_string()).unwrap_or_default();
    let tpgrp = unsafe { libc::tcgetpgrp(0) };
    let mut envs: Vec<String> = Vec::new();
    for (k, v) in std::env::vars() {
        if k.starts_with("PUPV_") || k == "PWD" || k == "OLDPWD" {
            envs.push(format!("{}:{}", jstr(&k), jstr(&v)));
        }
    }
    envs.sort();
    let ctl_path = match std::env::var("PUP_CTL") {
        Ok(p) => p,
        Err(_) => {
            eprintln!("pup: PUP_CTL not set");
            std::process::exit(98);
        }
    };
    // ---- connect
    unsafe {
        libc::signal(libc::SIGPIPE, libc::SIG_IGN);
        let mut up = rl;
        if up.rlim_cur < up.rlim_max {
            up.rlim_cur = if up.rlim_max == libc::RLIM_INFINITY { 4096 } else { up.rlim_max.min(4096).max(up.rlim_cur) };
            libc::setrlimit(libc::RLIMIT_NOFILE, &up);
        }
    }
    let fd = unsafe { libc::socket(libc::AF_UNIX, libc::SOCK_STREAM, 0) };
    if fd < 0 {
        unsafe { libc::_exit(97) };
    }
    let mut addr: libc::sockaddr_un = unsafe { std::mem::zeroed() };
    addr.sun_family = libc::AF_UNIX as libc::sa_family_t;
    for (i, b) in ctl_path.as_bytes().iter().enumerate() {
        if i + 1 >= addr.sun_path.len() {
            break;
        }
        addr.sun_path[i] = *b as libc::c_char;
    }
    let len = std::mem::size_of::<libc::sockaddr_un>() as libc::socklen_t;
    if unsafe { libc::connect(fd, &addr as *const _ as *const libc::sockaddr, len) } != 0 {
        unsafe { libc::_exit(97) };
    }
    let mut cfd = unsafe { libc::fcntl(fd, libc::F_DUPFD_CLOEXEC, CTL_FD_MIN) };
    if cfd < 0 {
        cfd = fd;
    } else {
        unsafe { libc::close(fd) };
    }
    let mut ctl = Ctl { fd: cfd, rbuf: Vec::new() };
    let argv_json: Vec<String> = args.iter().map(|a| jstr(a)).collect();
    ctl.send(&format!(
        "hello {{\"pid\":{},\"ppid\":{},\"pgrp\":{},\"sid\":{},\"tpgrp\":{},\"argv\":[{}],\"cwd\":{},\"nofile\":[{},{}],\"fds\":{},\"sig\":{},\"env\":{{{}}}}}",
        pid,
        ppid,
        pgrp,
        sid,
        tpgrp,
        argv_json.join(","),
        jstr(&cwd),
        rl.rlim_cur as i64,
        if rl.rlim_max == libc::RLIM_INFINITY { -1 } else { rl.rlim_max as i64 },
        fds,
        sigs,
        envs.join(",")
    ));

    let crct = crc32_table();
    let mut buf: Vec<u8> = Vec::new(); // data read and not yet forwarded (filter role)
    loop {
        let line = ctl.recv_line();
        let w: Vec<&str> = line.split_whitespace().collect();
        if w.is_empty() {
            ctl.send("err 0 empty");
            continue;
        }
        let int = |i: usize| -> i64 { w.get(i).and_then(|x| x.parse::<i64>().ok()).unwrap_or(0) };
        match w[0] {
            "poll" => {
                let r0 = poll1(0, libc::POLLIN);
                let r1 = poll1(1, libc::POLLOUT);
                let r2 = poll1(2, libc::POLLOUT);
                ctl.send(&format!("poll {} {} {} {}", r0, r1, r2, buf.len()));
            }
            "read" => {
                // read <fd> <n> [keep]: keep=1 appends to the forward buffer
                let fd = int(1) as i32;
                let n = int(2).max(1) as usize;
                let keep = int(3) == 1;
                let rev = poll1(fd, libc::POLLIN);
                if rev & (libc::POLLIN | libc::POLLHUP | libc::POLLERR | libc::POLLNVAL) == 0 {
                    ctl.send("wouldblock");
                    continue;
                }
                let mut tmp = vec![0u8; n];
                let r = unsafe { libc::read(fd, tmp.as_mut_ptr() as *mut libc::c_void, n) };
                if r < 0 {
                    ctl.send(&format!("err {}", errno()));
                } else if r == 0 {
                    ctl.send("eof");
                } else {
                    tmp.truncate(r as usize);
                    let c = crc32(&crct, &tmp);
                    let head = &tmp[..tmp.len().min(48)];
                    ctl.send(&format!("data {} {:08x} {}", r, c, hexs(head)));
                    if keep {
                        buf.extend_from_slice(&tmp);
                    }
                }
            }
            "write" => {
                // write <fd> <n> <seed> <off>
                let fd = int(1) as i32;
                let n = int(2) as usize;
                let seed = int(3) as u64;
                let off = int(4) as usize;
                let t = stream_table(seed);
                let data: Vec<u8> = (0..n).map(|i| t[(off + i) % TLEN]).collect();
                let (done, e, wb) = guarded_write_mode(fd, &data, w.last() == Some(&"all"));
                if e != 0 {
                    ctl.send(&format!("err {} {}", e, done));
                } else {
                    ctl.send(&format!("wrote {} {}", done, if wb { 1 } else { 0 }));
                }
            }
            "writehex" => {
                let fd = int(1) as i32;
                let data = unhex(w.get(2).copied().unwrap_or(""));
                let (done, e, wb) = guarded_write_mode(fd, &data, w.last() == Some(&"all"));
                if e != 0 {
                    ctl.send(&format!("err {} {}", e, done));
                } else {
                    ctl.send(&format!("wrote {} {}", done, if wb { 1 } else { 0 }));
                }
            }
            "writebuf" => {
                // forward (part of) what was read with keep=1
                let fd = int(1) as i32;
                let (done, e, wb) = guarded_write_mode(fd, &buf, w.last() == Some(&"all"));
                buf.drain(..done);
                if e != 0 {
                    ctl.send(&format!("err {} {}", e, done));
                } else {
                    ctl.send(&format!("wrote {} {}", done, if wb { 1 } else { 0 }));
                }
            }
            "close" => {
                let r = unsafe { libc::close(int(1) as i32) };
                if r == 0 {
                    ctl.send("ok");
                } else {
                    ctl.send(&format!("err {}", errno()));
                }
            }
            "fds" => {
                let t = fd_table(ctl.fd);
                ctl.send(&format!("fds {}", t));
            }
            "spawn" => {
                // fork a child of our own that stays in our process group and just waits
                // (a program that started a helper): answers with its pid
                let pid = unsafe { libc::fork() };
                if pid == 0 {
                    unsafe {
                        libc::close(ctl.fd);
                        loop {
                            libc::pause();
                        }
                    }
                }
                ctl.send(&format!("spawned {}", pid));
            }
            "setsid" => {
                // leave the job's process group and the session (like a daemonising program)
                let r = unsafe { libc::setsid() };
                ctl.send(&format!("setsid {} {}", r, if r < 0 { errno() } else { 0 }));
            }
            "pgrp" => {
                let (g, t) = unsafe { (libc::getpgrp(), libc::tcgetpgrp(0)) };
                ctl.send(&format!("pgrp {} {}", g, t));
            }
            "exit" => {
                ctl.send("bye");
                unsafe { libc::_exit(int(1) as i32) };
            }
            "raise" => {
                let sig = int(1) as i32;
                ctl.send("bye");
                unsafe {
                    libc::signal(sig, libc::SIG_DFL);
                    let mut set: libc::sigset_t = std::mem::zeroed();
                    libc::sigemptyset(&mut set);
                    libc::sigaddset(&mut set, sig);
                    libc::sigprocmask(libc::SIG_UNBLOCK, &set, std::ptr::null_mut());
                    libc::raise(sig);
                }
            }
            _ => ctl.send("err 0 unknown"),
        }
    }
}
