#!/bin/bash
# Re-runs every kept seeded change against the check recorded in its meta.json, in a scratch worktree of /repo HEAD
# with its own build cache (both under /tmp, removed at the end), so that /repo's working tree stays untouched.
# usage: tools/regress_seeded.sh [name-glob]    -> writes seeded/REGRESSION.txt (one line per change)
here="$(cd "$(dirname "$0")/.." && pwd)"
lane=$(mktemp -d /tmp/regress-wt.XXXXXX); rmdir "$lane"
cache=$(mktemp -d /tmp/regress-cache.XXXXXX)
git -C /repo worktree add -q --detach "$lane" HEAD || exit 2
head=$(git -C /repo rev-parse --short HEAD)
out="$here/seeded/REGRESSION.txt"
tmpout=$(mktemp)
echo "# seeded changes re-run against /repo $head with the checks as committed; format: name | check | reported classes or MISSED" > "$tmpout"
# REGRESS_ONLY="name1 name2 ...": re-run only these and merge the lines into the existing REGRESSION.txt
for d in "$here"/seeded/${1:-*}/; do
  name=$(basename "$d")
  [ -f "$d/patch.diff" ] || continue
  if [ -n "${REGRESS_ONLY:-}" ]; then case " $REGRESS_ONLY " in *" $name "*) ;; *) continue;; esac; fi
  args=$(python3 -c "import json,sys; m=json.load(open('$d/meta.json')); print(' '.join(m['check_run'].split()[2:]))")
  git -C "$lane" reset -q --hard HEAD; git -C "$lane" clean -qfd src 2>/dev/null
  if ! git -C "$lane" apply "$d/patch.diff" 2>/dev/null; then
    if ! git -C "$lane" apply --3way "$d/patch.diff" 2>/dev/null || git -C "$lane" diff --name-only --diff-filter=U | grep -q .; then
      git -C "$lane" reset -q --hard HEAD
      was=$(python3 -c "import json; print(json.load(open('$d/meta.json')).get('confirmed_by_me',{}).get('head','?'))")
      echo "$name | $args | PATCH-DOES-NOT-APPLY to $head (the code it changes was rewritten by a later fix; confirmed and reported at $was)" >> "$tmpout"; tail -1 "$tmpout"; continue
    fi
    git -C "$lane" reset -q   # keep the merged working tree, drop the index state
  fi
  log=$(cd "$here" && VERIF_REPO="$lane" VERIF_CACHE="$cache" VERIF_EVIDENCE_DIR="$cache/ev" VERIF_REPLAY_DIR="$cache/rp" ./check $args 2>&1)
  rc=$?
  classes=$(echo "$log" | grep -o "class=[a-z_.A-Z0-9]*" | sort | uniq -c | sort -rn | awk '{print $2"x"$1}' | tr '\n' ' ')
  if [ $rc -eq 1 ]; then echo "$name | $args | $classes" >> "$tmpout"
  elif [ $rc -eq 0 ]; then echo "$name | $args | MISSED" >> "$tmpout"
  else echo "$name | $args | HARNESS-ERROR rc=$rc $(echo "$log" | grep HARNESS | head -1 | cut -c1-160)" >> "$tmpout"; fi
  tail -1 "$tmpout"
done
git -C /repo worktree remove --force "$lane" 2>/dev/null; rm -rf "$lane" "$cache"
if [ -n "${REGRESS_ONLY:-}" ] && [ -f "$out" ]; then
  python3 - "$out" "$tmpout" <<'PY'
import sys
old, new = sys.argv[1], sys.argv[2]
upd = {}
for l in open(new):
    if not l.startswith("#"):
        upd[l.split(" | ")[0]] = l
lines = []
for l in open(old):
    k = l.split(" | ")[0]
    lines.append(upd.pop(k, l))
lines.extend(upd.values())
open(old, "w").writelines(lines)
PY
  rm -f "$tmpout"
else
  mv "$tmpout" "$out"
fi
echo REGRESSDONE
