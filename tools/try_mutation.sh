#!/bin/bash
# usage: tools/try_mutation.sh <patch.diff> <check args...>   e.g.  tools/try_mutation.sh seeded/x/patch.diff C06 quick --runs 64000
# Applies the patch to /repo (working tree only), runs ./check, reverts. Never commits.
set -u
patch="$(realpath "$1")"; shift
cd /repo || exit 2
if ! git diff --quiet; then echo "repo working tree not clean" >&2; exit 2; fi
if ! git apply --3way "$patch" 2>/tmp/try_mut.err && ! git apply "$patch" 2>>/tmp/try_mut.err; then
  cat /tmp/try_mut.err >&2; git checkout HEAD -- . ; git reset -q; exit 3
fi
git reset -q
cd /verif && VERIF_EVIDENCE_DIR=/tmp/mutation-evidence VERIF_REPLAY_DIR=/tmp/mutation-replays ./check "$@"; rc=$?
cd /repo && git checkout -- . && git status --short | grep -v '^??' 
echo "try_mutation rc=$rc"
exit $rc
