#!/usr/bin/env python3
"""usage: keep_mutation.py <srcdir> <name> <property> <caught yes|no> <check command> [note]
Copies a confirmed sub-agent mutation into /verif/seeded/<name>/ and extends its meta.json."""
import json, os, shutil, sys
src, name, prop, caught, cmd = sys.argv[1:6]
note = sys.argv[6] if len(sys.argv) > 6 else ""
dst = os.path.join("/verif/seeded", name)
os.makedirs(dst, exist_ok=True)
for f in os.listdir(src):
    p = os.path.join(src, f)
    if os.path.isfile(p) and (f in ("patch.diff", "demo.sh", "meta.json") or f.endswith(".py") or f.endswith(".sh")):
        shutil.copy(p, os.path.join(dst, f))
meta = {}
mp = os.path.join(dst, "meta.json")
if os.path.exists(mp):
    try:
        meta = json.load(open(mp))
    except Exception:
        meta = {"original_meta_unparsable": True}
conf = {}
cp = os.path.join(src, "confirm.json")
if os.path.exists(cp):
    conf = json.load(open(cp))
meta["property"] = prop
meta["confirmed_by_me"] = conf
meta["confirmation_cmd"] = "tools/confirm_mutation.sh <dir> (scratch worktree of /repo HEAD: apply, cargo build, cargo test --workspace, demo.sh x2 with the change -> must fail, x2 without -> must pass)"
meta["check_run"] = "tools/try_mutation.sh seeded/%s/patch.diff %s" % (name, cmd)
meta["detected_by_check"] = caught == "yes"
if note:
    meta["note"] = note
json.dump(meta, open(mp, "w"), indent=1)
print("kept", dst)
