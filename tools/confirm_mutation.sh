#!/bin/bash
# usage: tools/confirm_mutation.sh <dir with patch.diff demo.sh> [out.json]
# Confirms in a scratch worktree of /repo HEAD (outside /repo and /verif) that the
# change compiles, passes the baseline tests, and that demo.sh fails with it and
# passes without it. Removes the worktree (and its build output) afterwards.
set -u
dir="$(cd "$1" && pwd)"; out="${2:-$dir/confirm.json}"
wt=$(mktemp -d /tmp/confirm-wt.XXXXXX); rmdir "$wt"
export CARGO_NET_OFFLINE=true
clean_bin=/tmp/confirm-clean/$(git -C /repo rev-parse --short HEAD)/cicada
if [ ! -x "$clean_bin" ]; then
  mkdir -p "$(dirname "$clean_bin")"
  # from a worktree of HEAD: /repo's working tree may carry a change under trial at this moment
  cw=$(mktemp -d /tmp/confirm-cleanwt.XXXXXX); rmdir "$cw"
  git -C /repo worktree add -q --detach "$cw" HEAD
  (cd "$cw" && CARGO_TARGET_DIR=/tmp/confirm-clean/target cargo build --offline -q 2>/dev/null) && cp /tmp/confirm-clean/target/debug/cicada "$clean_bin"
  git -C /repo worktree remove --force "$cw" 2>/dev/null; rm -rf "$cw"
fi
git -C /repo worktree add -q --detach "$wt" HEAD || exit 2
res() { echo "{\"applies\": $1, \"builds\": $2, \"tests_pass\": $3, \"demo_fails_with\": $4, \"demo_passes_without\": $5, \"head\": \"$(git -C /repo rev-parse --short HEAD)\"}" > "$out"; cat "$out"; }
cleanup() { git -C /repo worktree remove --force "$wt" 2>/dev/null; rm -rf "$wt"; }
cd "$wt"
if ! git apply --3way "$dir/patch.diff" 2>/dev/null && ! git apply "$dir/patch.diff" 2>/dev/null; then res false false false false false; cleanup; exit 3; fi
# share the clean build's dependency artifacts to save time
mkdir -p "$wt/target"; cp -a /tmp/confirm-clean/target/debug "$wt/target/" 2>/dev/null
if ! CARGO_TARGET_DIR="$wt/target" cargo build --offline -q 2>"$wt.build.err"; then res true false false false false; cleanup; exit 4; fi
tests=true
CARGO_TARGET_DIR="$wt/target" cargo test --workspace --no-fail-fast --offline 2>&1 | tee "$wt.test.log" | grep -E "^test [^ ]+ \.\.\. FAILED" | grep -v test_run_itself | grep -q . && tests=false
grep -q "^test result" "$wt.test.log" || tests=false
fw=true; pw=true
for i in 1 2; do if (cd "$dir" && timeout 300 bash ./demo.sh "$wt/target/debug/cicada" >/dev/null 2>&1); then fw=false; fi; done
for i in 1 2; do if ! (cd "$dir" && timeout 300 bash ./demo.sh "$clean_bin" >/dev/null 2>&1); then pw=false; fi; done
res true true $tests $fw $pw
cleanup
