#!/bin/bash
# Reach measurement: which lines of the code behind the claimed properties do the simulated runs execute?
# usage: tools/coverage.sh <outdir> [check-id ...]   (default: all seven, quick tier)
# Builds shell and ksim with -C instrument-coverage (nightly; separate target dirs under .cache), runs the quick
# tiers with evidence/replays redirected to <outdir>, merges the profiles and writes per-file annotated listings
# and a summary to <outdir>. Violations reported in this mode are meaningless (the instrumented shell opens a
# profile file at exit); nothing here is a registered check.
set -u
here="$(cd "$(dirname "$0")/.." && pwd)"
out="$(realpath -m "$1")"; shift
checks="${*:-C06 C02 C04 C08 C11 C07 C18}"
mkdir -p "$out/prof"
bin="$(rustc +nightly --print sysroot)/lib/rustlib/x86_64-unknown-linux-gnu/bin"
export VERIF_COVERAGE="$out" LLVM_PROFILE_FILE="$out/prof/c-%9m.profraw"
export VERIF_EVIDENCE_DIR="$out/evidence" VERIF_REPLAY_DIR="$out/replays"
for c in $checks; do
  "$here/check" "$c" quick 2>&1 | grep -E '^\[(psim|ksim|build)\]' | cut -c1-140
done
"$bin/llvm-profdata" merge -sparse "$out"/prof/*.profraw -o "$out/cov.profdata" || exit 2
objs="-object $here/.cache/target-hooks-cov/debug/cicada"
[ -x "$here/.cache/target-ksim-cov/release/ksim" ] && objs="$objs -object $here/.cache/target-ksim-cov/release/ksim"
"$bin/llvm-cov" report $objs -instr-profile "$out/cov.profdata" --ignore-filename-regex='/\.cargo/|/rustc/|sim/ksim' > "$out/summary.txt" 2>/dev/null
"$bin/llvm-cov" show $objs -instr-profile "$out/cov.profdata" --ignore-filename-regex='/\.cargo/|/rustc/|sim/ksim' \
   --show-line-counts-or-regions --format=text --output-dir "$out/show" 2>/dev/null
rm -rf "$out/prof"
echo "summary: $out/summary.txt ; listings under $out/show"
