#!/bin/bash
# Build the framework from files on disk only (offline). Re-run by ./check as needed.
here="$(cd "$(dirname "$0")" && pwd)"
export CARGO_NET_OFFLINE=true PYTHONHASHSEED=0 PYTHONDONTWRITEBYTECODE=1
exec python3 "$here/vlib/main.py" --setup
