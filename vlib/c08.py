"""C08 -- running commands never leaks file descriptors, in the shell or into children."""
import signal

import c02
import c04
import pbatch
import plines
from plines import FileWorld, LineRunner, gen_redirs
from prun import Pipe
from psim import Rng, Violation, fd_snapshot

CTL_FD_MIN = 200


def small_role(rng, idx, n):
    first, last = idx == 0, idx == n - 1
    if first:
        t = rng.choice(["source", "source", "ignorer"])
    elif last:
        t = rng.choice(["sink", "sink", "early", "ignorer"])
    else:
        t = rng.choice(["filter", "filter", "early", "sink"])
    role = {"t": t, "code": rng.choice([0, 0, 1, 9])}
    if t == "source":
        role.update({"n": rng.choice([0, 10, 5000, 70000]), "seed": 100 + rng.below(9999), "chunk": 65536,
                     "on_epipe": "exit"})
    if t in ("sink", "filter", "early"):
        role["rchunk"] = 65536
    if t == "filter":
        role["on_epipe"] = "exit"
    if t == "early":
        role["k"] = rng.choice([0, 5])
    return role


def talk_role(rng, label, big=False):
    ws = [{"fd": 1, "hex": ("%s-out" % label).encode().hex()}]
    if rng.chance(40):
        ws.append({"fd": 2, "hex": ("%s-err\n" % label).encode().hex()})
    if rng.chance(50):
        ws.append({"fd": 1, "hex": b"\n".hex()})
    return {"t": "talker", "writes": ws, "code": rng.choice([0, 0, 2])}


def pup(name, role, redirs=None, args=None):
    st = {"kind": "pup", "name": name, "text": "pup " + name, "role": role, "redirs": redirs or []}
    if args:
        st["args"] = args
    return st


def gen_command(rng, ci, cfg):
    """one history entry: (list of line dicts)"""
    k = rng.below(100)
    tag = "k%d" % ci
    if k < 30:
        n = rng.choice([1, 2, 2, 3, 4, 5, 6])
        stages = []
        for i in range(n):
            j = rng.below(100)
            if j < 85 or n == 1:
                redirs = gen_redirs(rng, allow_bad=True, hs_sizes=(0, 5, 100)) if rng.chance(25) else []
                stages.append(pup("%s_%d" % (tag, i), small_role(rng, i, n), redirs))
            elif j < 92:
                stages.append({"kind": "builtin", "text": rng.choice(["alias", "jobs", "minfd"])})
            else:
                stages.append({"kind": "notfound", "text": "no_such_cmd_%d" % rng.below(99)})
        return [{"stages": stages, "probe": False, "bg": n == 1 and rng.chance(15) and stages[0]["kind"] == "pup"}]
    if k < 45:
        redirs = gen_redirs(rng, allow_bad=True, hs_sizes=(0, 5, 100, 70000))
        role = c04.gen_io_role(rng, tag, any(r["k"] in ("in", "hs") for r in redirs))
        return [{"stages": [pup(tag, role, redirs)], "probe": False}]
    if k < 60:
        redirs = [r for r in gen_redirs(rng, allow_bad=rng.chance(30), allow_in=False) if r["k"] in ("out", "dup")]
        b = rng.choice(["alias", "alias", "cd /nonexistent_zz", "jobs", "minfd", "history -h", "set -h", "vox ls"])
        return [{"stages": [{"kind": "builtin", "text": b, "redirs": redirs}], "probe": False}]
    if k < 85:
        # command substitution: inner capture pipeline(s), then the outer command
        style = rng.choice(["dollar", "dollar", "back"])
        ninner = rng.choice([1, 1, 2, 3])
        inner = []
        kind = rng.below(100)
        if kind < 60:
            for i in range(ninner):
                role = talk_role(rng, "%si%d" % (tag, i)) if i == ninner - 1 else small_role(rng, i, ninner)
                redirs = gen_redirs(rng, allow_bad=False, allow_in=False) if rng.chance(15) else []
                inner.append(pup("%s_i%d" % (tag, i), role, redirs))
        elif kind < 80:
            inner.append({"kind": "builtin", "text": rng.choice(["alias", "minfd", "jobs"])})
            if rng.chance(40):
                inner.insert(0, pup("%s_i0" % tag, small_role(rng, 0, 2)))
        else:
            inner.append({"kind": "notfound", "text": "no_such_cmd_%d" % rng.below(99)})
        inner_text = " | ".join(plines.render_stage(s) for s in inner)
        sub = "$(%s)" % inner_text if style == "dollar" else "`%s`" % inner_text
        outer_kind = rng.below(100)
        if outer_kind < 70:
            outer = [pup(tag + "_o", {"t": "ignorer", "code": 0}, args=["pre" + sub + "post" if rng.chance(50) else sub])]
        elif outer_kind < 85:
            outer = [{"kind": "assign", "text": "X%d=%s" % (ci, sub)}]
        else:
            outer = [{"kind": "builtin", "text": "alias", "args": [], "redirs": []},
                     pup(tag + "_o", {"t": "sink", "code": 0, "rchunk": 65536}, args=[sub])]
        return [{"groups": [{"stages": inner, "capture": True}, {"stages": outer, "capture": False}],
                 "stages": outer, "probe": False}]
    if k < 93:
        return [{"stages": [{"kind": rng.choice(["notfound", "noexec"]),
                             "text": rng.choice(["no_such_cmd_zz", "./noexec"])}], "probe": False}]
    if k < 96 or cfg.get("faults") or cfg.get("_exhausted"):
        # a function call (defined at the top of the script)
        return [{"stages": [{"kind": "func", "text": "myfn"}], "probe": False, "raw": True, "text": "myfn", "dones": 3}]
    return [source_line(rng.below(4), ci)]


def source_line(form, ci):
    """the builtin `source` starting a program of its own -- plainly, or while its output is being captured for a
    substitution (the capture pipes exist in the shell at that moment)"""
    if form == 0:
        return {"stages": [{"kind": "srcsub", "text": "source src0.sh"}], "probe": False, "raw": True,
                "text": "source src0.sh", "dones": 2, "inner": ["src_inner"]}
    if form == 1:
        return {"stages": [{"kind": "srcsub", "text": "source"}], "probe": False, "raw": True,
                "text": "pup k%d_o pre$(source src0.sh)post" % ci, "dones": 2, "inner": ["src_inner", "k%d_o" % ci]}
    if form == 2:
        return {"stages": [{"kind": "srcsub", "text": "source"}], "probe": False, "raw": True,
                "text": "pup k%d_o `source src0.sh`" % ci, "dones": 2, "inner": ["src_inner", "k%d_o" % ci]}
    return {"stages": [{"kind": "srcsub", "text": "source"}], "probe": False, "raw": True,
            "text": "XS%d=$(source src0.sh)" % ci, "dones": 2, "inner": ["src_inner"]}


def gen_scenario(rng, cfg):
    fw = FileWorld(rng)
    lines = []
    ncmd = 1 + rng.below(cfg.get("max_cmds", 8))
    exhaust_at = rng.below(ncmd) if cfg.get("rlimit") else -1
    for ci in range(ncmd):
        cmd = gen_command(rng, ci, dict(cfg, _exhausted=(ci == exhaust_at)))
        if ci == exhaust_at:
            n = cfg["rlimit"] if isinstance(cfg["rlimit"], int) else 4 + rng.below(37)
            lines.append({"stages": [{"kind": "builtin", "text": "ulimit -n %d" % n}], "probe": False, "limit": n})
            for l in cmd:
                l["exhausted"] = True
            lines.extend(cmd)
            lines.append({"stages": [{"kind": "builtin", "text": "ulimit -n 1024"}], "probe": False, "limit": 0})
        else:
            lines.extend(cmd)
        if rng.chance(50) or ci == exhaust_at:
            lines.append({"stages": [pup("prb%d" % ci, {"t": "ignorer", "code": 0}, args=["$?"])], "probe": True})
    files = fw.to_json()
    files["src0.sh"] = "pup src_inner\n"
    sc = {"prop": "C08", "lines": lines, "externals": [], "faults": {}, "files": files,
          "log_file": cfg.get("log_file") and rng.chance(50)}
    if cfg.get("faults"):
        kind = rng.choice(["pipe", "pipe", "fork"])
        sc["faults"] = {kind: [1 + rng.below(12), int(24 if kind == "pipe" else 11)]}
    return plines.LineRunner.rebuild(sc)


def is_assign(line):
    st = line["stages"]
    return len(st) == 1 and st[0]["kind"] == "assign"


class C08Runner(LineRunner):
    prop = "C08"

    def script_text(self):
        head = "function myfn() {\n    alias\n    pup fn_inner\n}\n"
        return head + "".join(plines.render_line(l) + "\n" for l in self.sc["lines"])

    def shell_env(self):
        if self.sc.get("log_file"):
            import os
            return {"CICADA_LOG_FILE": os.path.join(self.sim.home, "cicada.log")}
        return {}

    def pipe_fault(self, k):
        f = self.sc.get("faults", {}).get("pipe")
        return f[1] if f and f[0] == k else None

    def fork_fault(self, k):
        f = self.sc.get("faults", {}).get("fork")
        return f[1] if f and f[0] == k else None

    def line_groups(self, line):
        if line.get("raw") and line["stages"][0]["kind"] == "func":
            # the function body: `alias` runs in-process, then one puppet
            return [{"stages": [{"kind": "pup", "name": "fn_inner", "text": "pup fn_inner",
                                 "role": {"t": "ignorer", "code": 0}}], "capture": False}]
        if line.get("raw") and line["stages"][0]["kind"] == "srcsub":
            # the sourced file starts one puppet; then (substitution forms) the outer command
            return [{"stages": [{"kind": "pup", "name": n, "text": "pup " + n, "role": {"t": "ignorer", "code": 0}}],
                     "capture": False} for n in line["inner"]]
        groups = LineRunner.line_groups(self, line)
        out = []
        for g in groups:
            stages = [s for s in g["stages"] if s["kind"] != "assign"]
            if stages:
                out.append(dict(g, stages=stages))
            else:
                out.append(dict(g, stages=[{"kind": "builtin", "text": ""}]))
        return out

    def start_line(self):
        LineRunner.start_line(self)
        if self.cur is not None:
            self.relaxed = bool(self.cur.get("exhausted")) or bool(self.sc.get("faults"))

    def pup_did_not_start(self, st):
        if getattr(st, "unopenable", None):
            return
        if self.relaxed:
            # under descriptor exhaustion a command may fail before it executes its program
            self.sim.probe("stage_failed_under_exhaustion")
            st.not_started_ok = True
            return
        raise Violation("stage_not_started", "%s never executed its program" % st.label())

    def on_hello(self, st):
        fds = st.pup.fds
        extra = sorted(fd for fd in fds if fd > 2)
        if extra:
            raise Violation("child_extra_fd", "%s started with extra descriptors %s (%s)" % (
                st.label(), extra, ", ".join(self.short(fds[fd]["link"]) for fd in extra)))
        for fd in (0, 1, 2):
            if fd not in fds:
                raise Violation("child_extra_fd", "%s started with descriptor %d closed" % (st.label(), fd))
        line = self.sc["lines"][st.line_no]
        if line.get("probe"):
            self.sim.probe("probe_after_command_ran")
            if self.after_exhaustion:
                self.sim.probe("command_after_exhaustion_works")
                self.after_exhaustion = False

    after_exhaustion = False
    relaxed = False

    def shell_table(self):
        t = fd_snapshot(self.sim.shell_pid)
        return {fd: l for fd, l in t.items() if fd < CTL_FD_MIN}

    def check_line_done(self, line, status):
        sim = self.sim
        now = self.shell_table()
        # (the reference table is taken at the shell's first message; if that came from inside `source`, the sourced
        # file was open at that moment)
        base = {fd: l for fd, l in (self.shell_fds1 or self.shell_fds0).items()
                if fd < CTL_FD_MIN and not str(l).endswith("/src0.sh")}
        if now != base:
            leaked = sorted(fd for fd in now if fd not in base)
            lost = sorted(fd for fd in base if fd not in now)
            changed = sorted(fd for fd in base if fd in now and now[fd] != base[fd])
            if leaked:
                raise Violation("shell_fd_leak", "after `%s` the shell holds extra descriptors %s (%s)" % (
                    line["text"][:60], leaked, ", ".join(self.short(now[fd]) for fd in leaked)))
            raise Violation("shell_fd_lost", "after `%s` the shell's descriptors changed: lost %s, changed %s" % (
                line["text"][:60], lost, changed))
        if "limit" in line:
            if line["limit"]:
                sim.fault("rlimit_nofile_lowered")
                sim.probe("rlimit_%02d" % line["limit"])
            else:
                self.after_exhaustion = True
            return
        outer = line["_outer"]
        failed_injected = any(G.pipe_failed or G.forks_failed for G in line["_groups"])
        if failed_injected:
            if line["_outer"].pipe_failed or line["_outer"].forks_failed:
                # (a function's own status is not the status of a command inside it: not judged)
                if status == 0 and not line.get("raw") and (
                        outer.pipe_failed or getattr(outer.stages[-1], "fork_failed", False)):
                    raise Violation("status_zero_after_exhaustion",
                                    "`%s` reported status 0 although its pipes/processes could not be created" % line["text"][:60])
            sim.probe("injected_exhaustion_survived")
            self.after_exhaustion = True
            return
        # no stage may still be running when a foreground line ends
        if not outer.bg:
            for G in line["_groups"]:
                for st in G.stages:
                    if st.pid is not None and not st.gone:
                        raise Violation("no_recovery", "line finished while %s is alive" % st.label())

    def on_finish(self, exit_status):
        if self.cur is not None:
            raise Violation("shell_died", "the shell exited with status %d while line %d (%s) was running" % (
                exit_status, self.line_no, self.cur["text"][:60]))


import c07


class C08Interactive(c07.C07Runner):
    """the interactive (tty) path: job table, terminal hand-over, history database and log file
    are in play; every started program must still see only 0,1,2 and the shell's table must be
    the same at every prompt"""
    prop = "C08"

    def run(self):
        self.fd_base = None
        return c07.C07Runner.run(self)

    def shell_env_extra(self):
        return {}

    def resolve(self, m, job):
        c07.C07Runner.resolve(self, m, job)
        fds = m.pup.fds
        extra = sorted(fd for fd in fds if fd > 2)
        if extra:
            raise Violation("child_extra_fd", "%s (interactive session) started with extra descriptors %s (%s)" % (
                m.name, extra, ", ".join(str(fds[fd]["link"])[-40:] for fd in extra)))
        self.sim.probe("interactive_child_descriptors_checked")

    def at_prompt(self):
        c07.C07Runner.at_prompt(self)
        t = {fd: l for fd, l in fd_snapshot(self.sim.shell_pid).items() if fd < CTL_FD_MIN}
        if self.fd_base is None:
            self.fd_base = t
        elif t != self.fd_base:
            leaked = sorted(fd for fd in t if fd not in self.fd_base)
            lost = sorted(fd for fd in self.fd_base if fd not in t)
            if leaked:
                raise Violation("shell_fd_leak", "at the prompt the interactive shell holds extra descriptors %s (%s)" % (
                    leaked, ", ".join(str(t[fd])[-40:] for fd in leaked)))
            raise Violation("shell_fd_lost", "at the prompt the interactive shell lost descriptors %s" % lost)
        else:
            self.sim.probe("interactive_shell_table_unchanged_at_prompt")


class C08Any:
    """dispatches on the scenario shape: script histories or interactive sessions"""
    prop = "C08"

    def __new__(cls, sc, sched, keep_log=True):
        if "ops" in sc:
            return C08Interactive(sc, sched, keep_log)
        return C08Runner(sc, sched, keep_log)

    @classmethod
    def reductions(cls, sc):
        if "ops" in sc:
            return c07.C07Runner.reductions(sc)
        return C08Runner.reductions(sc)


CONFIGS = {
    "interactive": ({"max_actions": 16}, 12),
    "history": ({"max_cmds": 8}, 32),
    "history_log": ({"max_cmds": 6, "log_file": True}, 10),
    "rlimit": ({"max_cmds": 4, "rlimit": True}, 28),
    "faults": ({"max_cmds": 5, "faults": True}, 18),
}

TIERS = {"quick": 1600, "thorough": 25000}


def make_case(seed, index):
    rng = Rng(seed, index)
    r = rng.below(100)
    acc = 0
    name = "history"
    for k, (cfg, share) in CONFIGS.items():
        acc += share
        if r < acc:
            name = k
            break
    if name == "interactive":
        sc = c07.gen_scenario(rng, {"max_actions": 16, "handler": True})
        sc["prop"] = "C08"
        sc["log_file"] = rng.chance(50)
        sc["adversarial_picks"] = 100000
    else:
        sc = gen_scenario(rng, CONFIGS[name][0])
        sc["adversarial_picks"] = rng.choice([0, 5, 20, 60, 150])
    sc["config"] = name
    return sc, rng


def rlimit_sweep():
    """every RLIMIT_NOFILE value 4..40 before a pipeline (explicit cases)"""
    out = []
    for n in range(4, 41):
        rng = Rng(777, n)
        stages = [pup("w%d" % i, small_role(rng, i, 4)) for i in range(4)]
        inner = [pup("wi", talk_role(rng, "wi"))]
        lines = [
            {"stages": [{"kind": "builtin", "text": "ulimit -n %d" % n}], "probe": False, "limit": n},
            {"stages": stages, "probe": False, "exhausted": True},
            {"groups": [{"stages": inner, "capture": True},
                        {"stages": [pup("wo", {"t": "ignorer", "code": 0}, args=["$(pup wi)"])], "capture": False}],
             "stages": [pup("wo", {"t": "ignorer", "code": 0}, args=["$(pup wi)"])], "probe": False, "exhausted": True},
            {"stages": [{"kind": "builtin", "text": "ulimit -n 1024"}], "probe": False, "limit": 0},
            {"stages": [pup("prb", {"t": "ignorer", "code": 0}, args=["$?"])], "probe": True},
        ]
        sc = {"prop": "C08", "lines": lines, "externals": [], "faults": {}, "files": {}, "config": "rlimit_sweep",
              "adversarial_picks": 10}
        out.append(plines.LineRunner.rebuild(sc))
    # in-process builtins with two file targets under every small limit (one free slot: the second open fails)
    def out_r2(fd, target):
        return {"k": "out", "fd": fd, "append": False, "target": target, "spaced": False, "explicit1": False}
    for n in range(4, 13):
        lines = [
            {"stages": [{"kind": "builtin", "text": "ulimit -n %d" % n}], "probe": False, "limit": n},
            {"stages": [{"kind": "builtin", "text": "alias", "redirs": [out_r2(2, "f1"), out_r2(1, "f2")]}], "probe": False,
             "exhausted": True},
            {"stages": [{"kind": "builtin", "text": "cd /nonexistent_zz", "redirs": [out_r2(1, "f1"), out_r2(2, "f3")]}],
             "probe": False, "exhausted": True},
            {"stages": [{"kind": "builtin", "text": "ulimit -n 1024"}], "probe": False, "limit": 0},
            {"stages": [pup("prb", {"t": "ignorer", "code": 0}, args=["$?"])], "probe": True},
        ]
        sc = {"prop": "C08", "lines": lines, "externals": [], "faults": {}, "files": {}, "config": "rlimit_builtin_sweep",
              "adversarial_picks": 0}
        out.append(plines.LineRunner.rebuild(sc))
    # the pipe() of a here-string failing for a stage in first / last / middle position of a pipeline, and inside
    # substitutions (stage pipes and capture pipes exist by then and have to be handed back)
    def hs():
        return [{"k": "hs", "word": "abcde", "size": 5}]
    def src(n):
        return pup(n, {"t": "source", "n": 10, "seed": 5, "chunk": 65536, "on_epipe": "exit", "code": 0})
    def snk(n, redirs=None):
        return pup(n, {"t": "sink", "rchunk": 65536, "code": 0}, redirs)
    prb = {"stages": [pup("prb", {"t": "ignorer", "code": 0}, args=["$?"])], "probe": True}
    shapes = [
        ([snk("a", hs()), snk("b")], None, 2),
        ([src("a"), snk("b", hs())], None, 2),
        ([src("a"), snk("b", hs()), snk("c")], None, 3),
        (None, [snk("i", hs())], 3),
        (None, [src("i0"), snk("i1", hs())], 4),
        (None, [snk("i0", hs()), snk("i1")], 4),
    ]
    for stages, inner, k in shapes:
        if stages is not None:
            line = {"stages": stages, "probe": False}
        else:
            sub = "$(%s)" % " | ".join(plines.render_stage(x) for x in inner)
            outer = [pup("o", {"t": "ignorer", "code": 0}, args=["w" + sub])]
            line = {"groups": [{"stages": inner, "capture": True}, {"stages": outer, "capture": False}],
                    "stages": outer, "probe": False}
        sc = {"prop": "C08", "lines": [line, dict(prb)], "externals": [], "faults": {"pipe": [k, 24]}, "files": {},
              "config": "explicit_hs_pipe_fault", "adversarial_picks": 20}
        out.append(plines.LineRunner.rebuild(sc))
    # `source` starting a program, plainly and inside both substitution spellings and an assignment
    for form in range(4):
        lines = [source_line(form, 0), {"stages": [pup("prb", {"t": "ignorer", "code": 0}, args=["$?"])], "probe": True}]
        sc = {"prop": "C08", "lines": lines, "externals": [], "faults": {}, "files": {"src0.sh": "pup src_inner\n"},
              "config": "explicit_source", "adversarial_picks": 0}
        out.append(plines.LineRunner.rebuild(sc))
    # in-process builtins whose later redirect target cannot be opened after an earlier one was opened
    def out_r(fd, target, append=False):
        return {"k": "out", "fd": fd, "append": append, "target": target, "spaced": True, "explicit1": False}
    for text, redirs in (("alias", [out_r(1, "f1"), out_r(1, "nodir/x")]), ("alias", [out_r(2, "f1"), out_r(1, "f2"), out_r(2, "d0")]),
                         ("cd /nonexistent_zz", [out_r(1, "f1", True), out_r(2, "f0/x")]),
                         ("jobs", [out_r(1, "f3"), {"k": "dup", "from": 2, "to": 1}, out_r(1, "nodir/y")])):
        lines = [{"stages": [{"kind": "builtin", "text": text, "redirs": [dict(r) for r in redirs]}], "probe": False},
                 {"stages": [pup("prb", {"t": "ignorer", "code": 0}, args=["$?"])], "probe": True}]
        sc = {"prop": "C08", "lines": lines, "externals": [], "faults": {}, "files": {"f0": "x"}, "config": "explicit_builtin",
              "adversarial_picks": 0}
        out.append(plines.LineRunner.rebuild(sc))
    return out


def signature(v):
    preds = set()
    text = " ".join((l.get("text") or "") for l in v["scenario"].get("lines", []))
    if "$(" in text or "`" in text:
        preds.add("substitution")
    if "2>&1" in text:
        preds.add("dup_2_to_1")
    if "1>&2" in text or ">&2" in text:
        preds.add("dup_1_to_2")
    if v["scenario"].get("faults", {}).get("pipe"):
        preds.add("pipe_fault")
    if v["scenario"].get("faults", {}).get("fork"):
        preds.add("fork_fault")
    if "ulimit" in text:
        preds.add("rlimit")
    for l in v["scenario"].get("lines", []):
        for g in l.get("groups", []):
            if g.get("capture") and any(s["kind"] == "builtin" for s in g["stages"]):
                preds.add("substitution_of_builtin")
            if g.get("capture") and any(s.get("redirs") for s in g["stages"]):
                preds.add("redirection_inside_substitution")
    return preds


def run(args):
    return pbatch.run_check(
        prop="C08", args=args, runner=C08Any, make_case=make_case, runs=TIERS[args["tier"]],
        extra_cases=rlimit_sweep(),
        rule="one evaluation = one simulated history of 1..8 commands (pipelines of 1..6 puppets, every redirection form, "
             "builtins with and without redirection, command substitutions of puppets / pipelines / builtins / "
             "not-found commands, here-strings, functions, failing commands, background jobs), in some runs with "
             "`ulimit -n N` (N in 4..40) around one command or with the k-th pipe()/fork() failing; explicit sweep of "
             "all N in 4..40; one configuration runs interactive sessions on a pty (job table, terminal hand-over, history "
             "database, optional log file) with the same two oracles; distinct = distinct canonical event-log hashes among "
             "runs with >= 2 commands",
        nontrivial=lambda sc, res: (len(sc.get("lines", [])) >= 2 or len(sc.get("ops", [])) >= 5) and res["steps"] >= 2,
        signature=signature,
        components={
            "real": ["cicada binary: core.rs pipe/fork/dup2/close plumbing incl. capture pipes, builtins/utils.rs, ulimit builtin",
                     "Linux kernel: descriptors, RLIMIT_NOFILE, /proc/<pid>/fd as ground truth"],
            "stub": ["external programs are puppets that report their descriptor table (fcntl probe 0..1023) before "
                     "doing anything", "blocking waitpid executed as park + WNOHANG"],
        },
        assumptions=[
            "the control descriptor of the hooks (>= 200, close-on-exec) is excluded from the comparison",
            "under an active low RLIMIT_NOFILE or an injected failure a command may fail to start; only leak-freedom, "
            "non-zero status of the failed pipeline and recovery are judged there",
        ],
    )
