"""Engine P core: the real cicada binary (built with --cfg cicada_verif) on the
real kernel, parked at its hooks over a unix socket; every external program
is a puppet (`pup`) that performs one micro-step per request; the simulator
decides who takes the next step and waits for each step's effect to settle
before the next decision. See DESIGN.md sections 3.2, 3.3, Appendix B, C, F.

Real time is used only for watchdogs; no decision depends on it."""
import errno
import fcntl
import hashlib
import json
import os
import select
import shutil
import signal
import socket
import struct
import tempfile
import termios
import time
import zlib

from common import CICADA_BIN, PUP_BIN, HarnessError, reset_signal_state

WATCHDOG = float(os.environ.get("VERIF_WATCHDOG", "30"))
TLEN = 4093
FIONREAD = 0x541B
PIPE_CAP = 65536

_tables = {}


def stream_bytes(seed, off, n):
    t = _tables.get(seed)
    if t is None:
        t = bytes((((seed + j) * 2654435761) >> 13) & 0xff for j in range(TLEN))
        _tables[seed] = t
    start = off % TLEN
    reps = (start + n) // TLEN + 1
    return (t * reps)[start:start + n]


class Rng:
    """xoshiro256** -- the only source of decisions."""
    M = (1 << 64) - 1

    def __init__(self, seed, stream=0):
        x = (seed ^ (stream * 0xD1342543DE82EF95)) & self.M
        s = []
        for _ in range(4):
            x = (x + 0x9E3779B97F4A7C15) & self.M
            z = x
            z = ((z ^ (z >> 30)) * 0xBF58476D1CE4E5B9) & self.M
            z = ((z ^ (z >> 27)) * 0x94D049BB133111EB) & self.M
            s.append(z ^ (z >> 31))
        self.s = s

    def next(self):
        s = self.s
        M = self.M
        r = (((s[1] * 5) & M) << 7 | ((s[1] * 5) & M) >> 57) & M
        r = (r * 9) & M
        t = (s[1] << 17) & M
        s[2] ^= s[0]
        s[3] ^= s[1]
        s[1] ^= s[2]
        s[0] ^= s[3]
        s[2] ^= t
        s[3] = ((s[3] << 45) | (s[3] >> 19)) & M
        return r

    def below(self, n):
        return self.next() % n if n > 0 else 0

    def chance(self, pct):
        return self.next() % 100 < pct

    def choice(self, seq):
        return seq[self.below(len(seq))]


class Violation(Exception):
    def __init__(self, cls, detail):
        Exception.__init__(self, "%s: %s" % (cls, detail))
        self.cls = cls
        self.detail = detail


class Schedule:
    """Scheduler picks: replayed from a list while it lasts, then drawn from
    the PRNG (generation) or answered by the drain policy (replay past the end)."""

    def __init__(self, rng=None, picks=None, drain_after=None):
        self.rng = rng
        self.given = list(picks) if picks is not None else None
        self.pos = 0
        self.taken = []
        self.drain_after = drain_after  # number of picks after which the drain policy takes over

    def exhausted(self):
        if self.given is not None:
            return self.pos >= len(self.given)
        return self.drain_after is not None and len(self.taken) >= self.drain_after

    def pick(self, n):
        """index in range(n), or None when the drain policy should decide"""
        if n <= 0:
            return None
        if self.exhausted():
            return None
        if self.given is not None:
            v = self.given[self.pos] % n
            self.pos += 1
        else:
            v = self.rng.below(n)
        self.taken.append(v)
        return v


def proc_state(pid):
    """state letter of /proc/<pid>/stat, 'X' when the process does not exist"""
    try:
        with open("/proc/%d/stat" % pid, "rb") as f:
            data = f.read()
    except OSError:
        return "X"
    i = data.rfind(b")")
    if i < 0 or i + 2 >= len(data):
        return "X"
    return chr(data[i + 2])


def proc_fields(pid):
    try:
        with open("/proc/%d/stat" % pid, "rb") as f:
            data = f.read()
    except OSError:
        return None
    i = data.rfind(b")")
    rest = data[i + 2:].split()
    # rest[0]=state [1]=ppid [2]=pgrp [3]=session [4]=tty_nr [5]=tpgid
    return {"state": rest[0].decode(), "ppid": int(rest[1]), "pgrp": int(rest[2]), "sid": int(rest[3]),
            "tpgid": int(rest[5])}


def proc_syscall(pid):
    """(nr, [args]) of the system call the process is blocked in, or None"""
    try:
        with open("/proc/%d/syscall" % pid) as f:
            s = f.read().split()
    except OSError:
        return None
    if not s or s[0] in ("running", "-1"):
        return None
    try:
        return int(s[0]), [int(x, 16) for x in s[1:7]]
    except ValueError:
        return None


def fd_link(pid, fd):
    try:
        return os.readlink("/proc/%d/fd/%d" % (pid, fd))
    except OSError:
        return None


def fd_snapshot(pid, exclude=()):
    """{fd: link} of a process"""
    out = {}
    try:
        names = os.listdir("/proc/%d/fd" % pid)
    except OSError:
        return out
    for n in names:
        try:
            fd = int(n)
        except ValueError:
            continue
        if fd in exclude:
            continue
        l = fd_link(pid, fd)
        if l is not None:
            out[fd] = l
    return out


def pipe_ino(link):
    if link and link.startswith("pipe:["):
        return int(link[6:-1])
    return None


def pipe_blocked_state(pid):
    """If pid sits in read()/write() on a pipe: ('read'|'write', fd, ino, settled)
    where settled means it cannot make progress by itself (pipe empty for a
    reader, pipe full for a writer). Otherwise None."""
    sc = proc_syscall(pid)
    if sc is None:
        return None
    nr, args = sc
    if nr in (7, 219):
        # (219 = restart_syscall: a poll() that was interrupted by a stop and continued; the registers
        # still hold poll's arguments, and poll_blocked_state() validates that they describe pipes)
        return poll_blocked_state(pid, args)
    if nr not in (0, 1):
        return None
    fd = args[0]
    link = fd_link(pid, fd)
    ino = pipe_ino(link)
    if ino is None:
        return None
    path = "/proc/%d/fd/%d" % (pid, fd)
    try:
        if nr == 0:
            h = os.open(path, os.O_RDONLY | os.O_NONBLOCK)
            try:
                p = select.poll()
                p.register(h, select.POLLIN)
                r = p.poll(0)
                # data to read, or no writer left (end-of-file): the reader is about to move
                moving = bool(r and (r[0][1] & (select.POLLIN | select.POLLHUP | select.POLLERR)))
            finally:
                os.close(h)
            return ("read", fd, ino, not moving)
        else:
            h = os.open(path, os.O_WRONLY | os.O_NONBLOCK)
            try:
                p = select.poll()
                p.register(h, select.POLLOUT)
                r = p.poll(0)
                # room in the pipe, or no reader left (EPIPE): the writer is about to move
                moving = bool(r and (r[0][1] & (select.POLLOUT | select.POLLERR | select.POLLHUP)))
            finally:
                os.close(h)
            return ("write", fd, ino, not moving)
    except OSError:
        return None


def poll_blocked_state(pid, args):
    """pid sits in poll() on pipe read ends (the shell draining its capture pipes):
    settled when none of the polled pipes has data or has lost all its writers."""
    addr, nfds = args[0], args[1]
    if nfds <= 0 or nfds > 8:
        return None
    try:
        with open("/proc/%d/mem" % pid, "rb", 0) as f:
            f.seek(addr)
            raw = f.read(8 * nfds)
    except (OSError, ValueError, OverflowError):
        return None
    if len(raw) != 8 * nfds:
        return None
    first = None
    for i in range(nfds):
        fd, events, _ = struct.unpack_from("ihh", raw, 8 * i)
        if fd < 0 or events == 0:
            continue
        link = fd_link(pid, fd)
        ino = pipe_ino(link)
        if ino is None or not (events & select.POLLIN):
            return None
        try:
            h = os.open("/proc/%d/fd/%d" % (pid, fd), os.O_RDONLY | os.O_NONBLOCK)
        except OSError:
            return None
        try:
            p = select.poll()
            p.register(h, select.POLLIN)
            r = p.poll(0)
            moving = bool(r and (r[0][1] & (select.POLLIN | select.POLLHUP | select.POLLERR)))
        finally:
            os.close(h)
        if moving:
            return ("read", fd, ino, False)
        if first is None:
            first = (fd, ino)
    if first is None:
        return None
    return ("read", first[0], first[1], True)


class Puppet:
    def __init__(self, sock, hello):
        self.sock = sock
        self.hello = hello
        self.pid = hello["pid"]
        self.name = hello["argv"][1] if len(hello["argv"]) > 1 else "?"
        self.alive = True
        self.rbuf = b""
        self.role = None
        self.sim = None
        self.fds = {f["fd"]: f for f in hello["fds"]}

    def rpc(self, line):
        try:
            self.sock.sendall(line.encode() + b"\n")
        except OSError:
            raise HarnessError("puppet %s vanished while sending %r" % (self.name, line))
        deadline = time.time() + WATCHDOG
        while b"\n" not in self.rbuf:
            if self.sim is not None and self.sim.idle_cb is not None:
                # a puppet writing to the terminal only gets on when the master side is drained
                self.sim.idle_cb()
                r, _, _ = select.select([self.sock], [], [], 0.002)
            else:
                r, _, _ = select.select([self.sock], [], [], 1.0)
            if r:
                d = self.sock.recv(65536)
                if not d:
                    raise HarnessError("puppet %s closed its control connection (request %r)" % (self.name, line))
                self.rbuf += d
            elif time.time() > deadline:
                raise HarnessError("puppet %s did not answer %r" % (self.name, line))
        i = self.rbuf.index(b"\n")
        out = self.rbuf[:i].decode()
        self.rbuf = self.rbuf[i + 1:]
        return out

    def close(self):
        try:
            self.sock.close()
        except OSError:
            pass


class Sim:
    """One simulated session: a scratch directory, a shell, its puppets."""

    def __init__(self, sched, keep_log=True):
        self.sched = sched
        self.dir = tempfile.mkdtemp(prefix="psim-", dir=os.environ.get("TMPDIR") or "/tmp")
        self.home = os.path.join(self.dir, "home")
        self.work = os.path.join(self.dir, "work")
        self.bin = os.path.join(self.dir, "bin")
        for d in (self.home, self.work, self.bin):
            os.mkdir(d)
        os.symlink(PUP_BIN, os.path.join(self.bin, "pup"))
        self.ctl_path = os.path.join(self.dir, "c.sock")
        self.pup_path = os.path.join(self.dir, "p.sock")
        self.ctl_listen = socket.socket(socket.AF_UNIX, socket.SOCK_STREAM)
        self.ctl_listen.bind(self.ctl_path)
        self.ctl_listen.listen(8)
        self.pup_listen = socket.socket(socket.AF_UNIX, socket.SOCK_STREAM)
        self.pup_listen.bind(self.pup_path)
        self.pup_listen.listen(64)
        self.shell_pid = None
        self.shell_conn = None
        self.shell_rbuf = b""
        self.shell_status = None
        self.shell_pending = None  # last message of the shell that has not been answered
        self.puppets = {}   # pid -> Puppet
        self.children = {}  # pid -> {"kind": "puppet"|"free"|"dead", ...} children of the shell
        self.log = []
        self.keep_log = keep_log
        self.h = hashlib.blake2b(digest_size=8)
        self.names = {}     # pid -> logical name
        self.inos = {}      # pipe inode -> logical id
        self.steps = 0
        self.probes = {}
        self.faults = {}
        self.master = None  # pty master fd in interactive mode
        self.idle_cb = None
        self.clock = 1_700_000_000.0
        self.clock_reads = 0

    # -- canonical log
    def ev(self, *parts):
        s = " ".join(str(p) for p in parts)
        self.h.update(s.encode() + b"\n")
        if self.keep_log:
            self.log.append(s)

    def log_hash(self):
        return self.h.hexdigest()

    def probe(self, name, n=1):
        self.probes[name] = self.probes.get(name, 0) + n

    def fault(self, name, n=1):
        self.faults[name] = self.faults.get(name, 0) + n

    def pname(self, pid):
        return self.names.get(pid, "pid?")

    def iname(self, ino):
        if ino not in self.inos:
            self.inos[ino] = "P%d" % len(self.inos)
        return self.inos[ino]

    # -- shell process
    def base_env(self):
        return {
            "PATH": self.bin + ":/usr/bin:/bin",
            "HOME": self.home,
            "USER": "verif",
            "LANG": "C.UTF-8",
            "TERM": "dumb",
            "HISTORY_FILE": os.path.join(self.home, "history.sqlite"),
            "XDG_DATA_HOME": os.path.join(self.home, "xdg-data"),
            "XDG_CONFIG_HOME": os.path.join(self.home, "xdg-config"),
            "CICADA_VERIF_CTL": self.ctl_path,
            "PUP_CTL": self.pup_path,
            "NO_EXIT_ON_CTRL_D": "",
        }

    def spawn_shell(self, argv, env_extra=None, stdin=None, stdout=None, stderr=None, pty_mode=False, cwd=None,
                    launcher=False):
        env = self.base_env()
        env.pop("NO_EXIT_ON_CTRL_D")
        if os.environ.get("LLVM_PROFILE_FILE"):
            env["LLVM_PROFILE_FILE"] = os.environ["LLVM_PROFILE_FILE"]
        if env_extra:
            env.update(env_extra)
        if pty_mode:
            master, slave = os.openpty()
            self.master = master
        r_out = stdout if stdout is not None else os.path.join(self.dir, "shell.out")
        r_err = stderr if stderr is not None else os.path.join(self.dir, "shell.err")
        pid = os.fork()
        if pid == 0:
            try:
                os.chdir(cwd or self.work)
                if pty_mode:
                    os.setsid()
                    fcntl.ioctl(slave, termios.TIOCSCTTY, 0)
                    os.dup2(slave, 0)
                    os.dup2(slave, 1)
                    os.dup2(slave, 2)
                    if slave > 2:
                        os.close(slave)
                    os.close(master)
                else:
                    fd0 = os.open(stdin or "/dev/null", os.O_RDONLY)
                    fd1 = os.open(r_out, os.O_WRONLY | os.O_CREAT | os.O_APPEND, 0o644)
                    fd2 = os.open(r_err, os.O_WRONLY | os.O_CREAT | os.O_APPEND, 0o644)
                    os.dup2(fd0, 0)
                    os.dup2(fd1, 1)
                    os.dup2(fd2, 2)
                    for fd in (fd0, fd1, fd2):
                        if fd > 2:
                            os.close(fd)
                # nothing else may be inherited
                os.closerange(3, 1024)
                reset_signal_state()
                if launcher and pty_mode:
                    # the shell is started by a launcher that stays the session and group leader (like `sh -c 'cicada'`):
                    # the shell is then an ordinary member of the terminal's foreground group, not its leader
                    p2 = os.fork()
                    if p2 != 0:
                        for sig in (signal.SIGINT, signal.SIGQUIT, signal.SIGTSTP, signal.SIGTTIN, signal.SIGTTOU, signal.SIGHUP):
                            signal.signal(sig, signal.SIG_IGN)
                        code = 126
                        try:
                            while True:
                                try:
                                    _, st = os.waitpid(p2, 0)
                                except InterruptedError:
                                    continue
                                code = os.WEXITSTATUS(st) if os.WIFEXITED(st) else 128 + os.WTERMSIG(st)
                                break
                        finally:
                            os._exit(code)
                os.execve(CICADA_BIN, [CICADA_BIN] + argv, env)
            finally:
                os._exit(127)
        if pty_mode:
            os.close(slave)
        self.shell_pid = pid
        self.reap_pid = pid
        self.launcher = bool(launcher and pty_mode)
        self.names[pid] = "shell"
        return pid

    def shell_said_hello(self, pid):
        """with a launcher in between, the process to look at is the one that said hello; the one to reap is the
        launcher (it exits with the shell's status)"""
        if getattr(self, "launcher", False) and pid != self.shell_pid:
            self.names[self.shell_pid] = "launcher"
            self.shell_pid = pid
            self.names[pid] = "shell"

    def _shell_line(self):
        if b"\n" in self.shell_rbuf:
            i = self.shell_rbuf.index(b"\n")
            line = self.shell_rbuf[:i].decode(errors="replace")
            self.shell_rbuf = self.shell_rbuf[i + 1:]
            return line
        return None

    def shell_reap(self):
        if self.shell_status is not None:
            return self.shell_status
        try:
            p, st = os.waitpid(getattr(self, "reap_pid", None) or self.shell_pid, os.WNOHANG)
        except ChildProcessError:
            self.shell_status = -1
            return -1
        if p == 0:
            return None
        if os.WIFEXITED(st):
            self.shell_status = os.WEXITSTATUS(st)
        else:
            self.shell_status = 128 + os.WTERMSIG(st)
        return self.shell_status

    def shell_event(self, allow_blocked=True, tty_idle=False):
        """Wait until the shell parks at a hook ('msg', text), sits blocked on a
        pipe with no way to progress by itself ('blocked', kind, fd, ino), reads
        the terminal ('tty',) or has terminated ('dead', status)."""
        deadline = time.time() + WATCHDOG
        spins = 0
        while True:
            if self.idle_cb is not None:
                self.idle_cb()
            line = self._shell_line()
            if line is not None:
                self.shell_pending = line
                return ("msg", line)
            socks = [self.shell_conn] if self.shell_conn is not None else [self.ctl_listen]
            r, _, _ = select.select(socks, [], [], 0 if spins < 3 else 0.0004)
            spins += 1
            if r:
                if self.shell_conn is None:
                    self.shell_conn, _ = self.ctl_listen.accept()
                    continue
                d = self.shell_conn.recv(65536)
                if d:
                    self.shell_rbuf += d
                    continue
                # EOF on the control channel: the shell is going away
                st = None
                t1 = time.time() + WATCHDOG
                while st is None and time.time() < t1:
                    st = self.shell_reap()
                    if st is None:
                        time.sleep(0.0005)
                if st is None:
                    raise HarnessError("shell closed its control channel but did not terminate")
                return ("dead", st)
            st = self.shell_reap()
            if st is not None:
                return ("dead", st)
            if allow_blocked and spins > 2:
                self.settle_free_children()
                b = pipe_blocked_state(self.shell_pid)
                if b is not None and b[3]:
                    # confirm: still no message
                    r, _, _ = select.select(socks, [], [], 0)
                    if not r:
                        return ("blocked", b[0], b[1], b[2])
                if tty_idle and self.master is not None and self.tty_reading():
                    r, _, _ = select.select(socks, [], [], 0)
                    if not r:
                        return ("tty",)
            if time.time() > deadline:
                raise HarnessError("watchdog: shell reaches no hook (state %s, syscall %s)" % (
                    proc_state(self.shell_pid), proc_syscall(self.shell_pid)))

    def wait_sigchld_handled(self):
        """(handler mode, shell idle at its prompt) wait until a SIGCHLD just generated for the shell has been taken by
        its handler and the shell is back reading the terminal: the next outside event then makes a notice of its own
        instead of being merged with this one by the kernel"""
        deadline = time.time() + WATCHDOG
        while True:
            pend = 0
            try:
                with open("/proc/%d/status" % self.shell_pid) as f:
                    for l in f:
                        if l.startswith("SigPnd:") or l.startswith("ShdPnd:"):
                            pend |= int(l.split()[1], 16)
            except OSError:
                return
            if not (pend & (1 << 16)) and proc_state(self.shell_pid) == "S" and self.tty_reading():
                return
            if time.time() > deadline:
                raise HarnessError("watchdog: the shell does not come back to its prompt after SIGCHLD")
            time.sleep(0.0003)

    def shell_go(self, reply="go"):
        if self.shell_pending is None:
            raise HarnessError("shell_go without a parked shell")
        self.shell_pending = None
        self.shell_conn.sendall(reply.encode() + b"\n")

    def tty_reading(self):
        """the shell is blocked reading (or polling) its terminal"""
        sc = proc_syscall(self.shell_pid)
        if sc is None:
            return False
        nr, args = sc
        if nr == 0:  # read
            l = fd_link(self.shell_pid, args[0])
            return bool(l and l.startswith("/dev/pts/"))
        return nr in (7, 23, 270, 271, 232, 281)  # poll, select, pselect6, ppoll, epoll_wait, epoll_pwait

    # -- children
    def accept_puppets(self, timeout=0.0):
        """register every puppet that has said hello"""
        got = []
        while True:
            r, _, _ = select.select([self.pup_listen], [], [], timeout)
            if not r:
                return got
            timeout = 0.0
            conn, _ = self.pup_listen.accept()
            buf = b""
            deadline = time.time() + WATCHDOG
            while b"\n" not in buf:
                rr, _, _ = select.select([conn], [], [], 1.0)
                if rr:
                    d = conn.recv(1 << 20)
                    if not d:
                        break
                    buf += d
                elif time.time() > deadline:
                    raise HarnessError("puppet connected but sent no hello")
            if b"\n" not in buf:
                conn.close()
                continue
            line, rest = buf.split(b"\n", 1)
            if not line.startswith(b"hello "):
                raise HarnessError("bad puppet greeting %r" % line[:80])
            hello = json.loads(line[6:].decode())
            p = Puppet(conn, hello)
            p.sim = self
            p.rbuf = rest
            self.puppets[p.pid] = p
            got.append(p)

    def resolve_child(self, pid):
        """After fork: wait until the child has said hello (exec of a puppet),
        is a zombie, or is blocked on a pipe. Returns ('hello', Puppet) |
        ('zombie',) | ('blocked', kind, fd, ino) | ('stopped',)."""
        deadline = time.time() + WATCHDOG
        spins = 0
        while True:
            if pid in self.puppets:
                return ("hello", self.puppets[pid])
            self.accept_puppets(0 if spins < 2 else 0.0003)
            spins += 1
            if pid in self.puppets:
                return ("hello", self.puppets[pid])
            st = proc_state(pid)
            if st == "Z":
                # a hello may still be in flight only if the child exec'd; a zombie that never said hello did not
                self.accept_puppets(0)
                if pid in self.puppets:
                    return ("hello", self.puppets[pid])
                return ("zombie",)
            if st == "X":
                return ("gone",)
            if st == "T":
                return ("stopped",)
            if spins > 3:
                b = pipe_blocked_state(pid)
                if b is not None and b[3]:
                    return ("blocked", b[0], b[1], b[2])
            if time.time() > deadline:
                raise HarnessError("watchdog: child %d neither said hello nor terminated (state %s syscall %s)" % (
                    pid, st, proc_syscall(pid)))

    def settle_free_children(self):
        """children of the shell that are not puppets (builtins running in a
        subprocess, failed execs) run freely; wait until each is a zombie or
        cannot progress by itself. Returns True when one of them terminated."""
        changed = False
        for pid, c in list(self.children.items()):
            if c["kind"] != "free":
                continue
            deadline = time.time() + WATCHDOG
            while True:
                st = proc_state(pid)
                if st in ("Z", "X"):
                    c["kind"] = "dead"
                    changed = True
                    break
                if st == "T":
                    break
                b = pipe_blocked_state(pid)
                if b is not None and b[3]:
                    break
                if time.time() > deadline:
                    raise HarnessError("watchdog: free-running child %d does not settle (state %s syscall %s)" % (
                        pid, st, proc_syscall(pid)))
                time.sleep(0.0002)
        return changed

    def wait_state(self, pid, letters, what):
        deadline = time.time() + WATCHDOG
        while True:
            st = proc_state(pid)
            if st in letters:
                return st
            if time.time() > deadline:
                raise HarnessError("watchdog: %s: pid %d stays in state %s (want %s)" % (what, pid, st, letters))
            time.sleep(0.0002)

    # -- teardown
    def close(self):
        # kill everything that may be left
        # (names also holds processes started by puppets themselves -- the grandchild helpers of C07 -- which nobody
        # else would ever collect when a run ends early)
        victims = set(self.puppets.keys()) | set(self.children.keys())
        for p in self.names.keys():
            if p and p > 1 and p not in victims and p != os.getpid():
                try:
                    with open("/proc/%d/comm" % p) as f:
                        if f.read().strip() in ("pup", "cicada"):
                            victims.add(p)
                except OSError:
                    pass
        if self.shell_pid:
            victims.add(self.shell_pid)
        if getattr(self, "reap_pid", None):
            victims.add(self.reap_pid)
        for pid in victims:
            try:
                os.kill(pid, signal.SIGKILL)
            except OSError:
                pass
        for pid in victims:
            try:
                os.kill(pid, signal.SIGCONT)
            except OSError:
                pass
        for p in self.puppets.values():
            p.close()
        if self.shell_pid and self.shell_status is None:
            try:
                os.waitpid(getattr(self, "reap_pid", None) or self.shell_pid, 0)
            except OSError:
                pass
        for s in (self.shell_conn, self.ctl_listen, self.pup_listen):
            try:
                if s is not None:
                    s.close()
            except OSError:
                pass
        if self.master is not None:
            try:
                os.close(self.master)
            except OSError:
                pass
        if not os.environ.get("VERIF_KEEP"): shutil.rmtree(self.dir, ignore_errors=True)


def crc(data):
    return "%08x" % (zlib.crc32(data) & 0xffffffff)
