"""Stub fidelity of engine K: the same seeded sequences of child events are
performed on real processes (fork, kill, waitpid on this kernel) and on the
SimKernel; the reports a WNOHANG wait loop collects after each batch of
events must agree as multisets."""
import json
import os
import signal
import subprocess
import time

from common import reset_signal_state, KSIM_BIN, HarnessError
from psim import Rng, proc_state

FLAGS = os.WNOHANG | os.WUNTRACED | os.WCONTINUED


def gen_case(rng):
    n = 1 + rng.below(3)
    ops = []
    state = ["run"] * n
    for _ in range(2 + rng.below(8)):
        k = rng.below(100)
        i = rng.below(n)
        if k < 25:
            ops.append(["drain"])
        elif k < 50:
            ops.append(["stop", i, int(rng.choice([signal.SIGSTOP, signal.SIGTSTP]))])
        elif k < 72:
            ops.append(["cont", i])
        elif k < 86:
            ops.append(["exit", i, rng.choice([0, 1, 7])])
        else:
            ops.append(["kill", i, int(rng.choice([signal.SIGKILL, signal.SIGTERM]))])
    ops.append(["drain"])
    return {"n": n, "ops": ops}


def wait_state(pid, letters):
    deadline = time.time() + 10
    while proc_state(pid) not in letters:
        if time.time() > deadline:
            raise HarnessError("fidelity: child %d does not reach state %s" % (pid, letters))
        time.sleep(0.0002)


def run_real(case):
    """children block in pause(); `exit` is delivered as SIGUSR1/SIGUSR2-coded exit through a pipe-free trick:
    the child exits with the code written into a per-child file descriptor (here: a signal handler table)"""
    kids = []
    rpipes = []
    for i in range(case["n"]):
        r, w = os.pipe()
        pid = os.fork()
        if pid == 0:
            try:
                os.close(w)
                for x, _ in rpipes:
                    pass
                signal.signal(signal.SIGTSTP, signal.SIG_DFL)
                signal.signal(signal.SIGTERM, signal.SIG_DFL)
                data = os.read(r, 1)   # parent writes the exit code byte
                os._exit(data[0] if data else 99)
            finally:
                os._exit(98)
        os.close(r)
        kids.append(pid)
        rpipes.append((w, pid))
    state = ["run"] * case["n"]
    out = []
    try:
        for op in case["ops"]:
            name = op[0]
            if name == "drain":
                reps = []
                while True:
                    try:
                        pid, st = os.waitpid(-1, FLAGS)
                    except ChildProcessError:
                        reps.append("echild")
                        break
                    if pid == 0:
                        break
                    i = kids.index(pid)
                    if os.WIFEXITED(st):
                        reps.append("exited %d %d" % (i, os.WEXITSTATUS(st)))
                    elif os.WIFSIGNALED(st):
                        reps.append("signaled %d %d" % (i, os.WTERMSIG(st)))
                    elif os.WIFSTOPPED(st):
                        reps.append("stopped %d %d" % (i, os.WSTOPSIG(st)))
                    elif os.WIFCONTINUED(st):
                        reps.append("continued %d" % i)
                out.append(sorted(reps))
                continue
            i = op[1]
            pid = kids[i]
            if name == "stop":
                if state[i] != "run":
                    continue
                os.kill(pid, op[2])
                wait_state(pid, "T")
                state[i] = "stop"
            elif name == "cont":
                if state[i] != "stop":
                    continue
                os.kill(pid, signal.SIGCONT)
                wait_state(pid, "RSD")
                state[i] = "run"
            elif name == "exit":
                if state[i] != "run":
                    continue
                os.write(rpipes[i][0], bytes([op[2]]))
                wait_state(pid, "ZX")
                state[i] = "dead"
            elif name == "kill":
                if state[i] == "dead" or (state[i] == "stop" and op[2] != signal.SIGKILL):
                    continue
                os.kill(pid, op[2])
                wait_state(pid, "ZX")
                state[i] = "dead"
    finally:
        for pid in kids:
            try:
                os.kill(pid, signal.SIGKILL)
            except OSError:
                pass
        for w, _ in rpipes:
            try:
                os.close(w)
            except OSError:
                pass
        while True:
            try:
                pid, _ = os.waitpid(-1, 0)
            except ChildProcessError:
                break
    return out


def run_real_isolated(cases):
    """the real processes live in a session and process group of their own whose parent is the session leader:
    however this check was launched (background job, orphaned process group, signals ignored or blocked by the
    caller), SIGTSTP stops them and nothing is inherited from the caller's signal state"""
    r, w = os.pipe()
    a = os.fork()
    if a == 0:
        code = 1
        try:
            os.close(r)
            os.setsid()
            b = os.fork()
            if b == 0:
                try:
                    os.setpgid(0, 0)
                    reset_signal_state()
                    try:
                        res = {"ok": [run_real(c) for c in cases]}
                    except HarnessError as e:
                        res = {"error": str(e)}
                    data = json.dumps(res).encode()
                    while data:
                        n = os.write(w, data)
                        data = data[n:]
                    os._exit(0)
                finally:
                    os._exit(3)
            os.close(w)
            _, st = os.waitpid(b, 0)
            code = 0 if st == 0 else 1
        finally:
            os._exit(code)
    os.close(w)
    chunks = []
    while True:
        d = os.read(r, 1 << 16)
        if not d:
            break
        chunks.append(d)
    os.close(r)
    os.waitpid(a, 0)
    try:
        res = json.loads(b"".join(chunks).decode())
    except ValueError:
        raise HarnessError("fidelity: the real-process side gave no result")
    if "error" in res:
        raise HarnessError(res["error"])
    return res["ok"]


def run(seed, count):
    """returns (validated, mismatches[list])"""
    cases = [gen_case(Rng(seed, 7_000_000 + i)) for i in range(count)]
    inp = "".join(json.dumps(c) + "\n" for c in cases)
    p = subprocess.run([KSIM_BIN, "kernel"], input=inp, stdout=subprocess.PIPE, stderr=subprocess.PIPE, text=True)
    if p.returncode != 0:
        raise HarnessError("ksim kernel failed: %s" % p.stderr[-300:])
    sim = [json.loads(l) for l in p.stdout.splitlines() if l.strip()]
    if len(sim) != len(cases):
        raise HarnessError("ksim kernel answered %d of %d cases" % (len(sim), len(cases)))
    bad = []
    reals = run_real_isolated(cases)
    for c, s, real in zip(cases, sim, reals):
        if real != s:
            bad.append({"case": c, "real": real, "sim": s})
    return len(cases) - len(bad), bad
