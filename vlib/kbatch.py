"""Engine K batches: run ksim worker processes in parallel, aggregate, and
double-run a prefix of the run indices for the determinism self-check."""
import json
import os
import subprocess
import tempfile
import time

from common import KSIM_BIN, NCPU, HarnessError, log


def _spawn(seed, first, stride, count, events, out, emit_hashes):
    cmd = [KSIM_BIN, "worker", "--seed", str(seed), "--first", str(first), "--stride", str(stride),
           "--count", str(count), "--events", str(events), "--out", out, "--emit-hashes", str(emit_hashes)]
    return subprocess.Popen(cmd, stdout=subprocess.DEVNULL, stderr=subprocess.DEVNULL)


def run_batch(seed, runs, events, workers=None, double_run=2000):
    workers = workers or NCPU
    per = (runs + workers - 1) // workers
    t0 = time.time()
    with tempfile.TemporaryDirectory(prefix="ksim-") as td:
        procs = []
        for w in range(workers):
            out = os.path.join(td, "w%d.json" % w)
            procs.append((_spawn(seed, w, workers, per, events, out, double_run), out))
        # determinism: the same run indices again, in one process, different worker layout
        dr_out = os.path.join(td, "dr.json")
        dr = _spawn(seed, 0, 1, double_run, events, dr_out, double_run) if double_run else None
        results = []
        for p, out in procs:
            rc = p.wait()
            if rc != 0 or not os.path.exists(out):
                raise HarnessError("ksim worker failed (rc=%s)" % rc)
            results.append(json.load(open(out)))
        dr_res = None
        if dr is not None:
            rc = dr.wait()
            if rc != 0:
                raise HarnessError("ksim determinism worker failed (rc=%s)" % rc)
            dr_res = json.load(open(dr_out))
    agg = {"runs": 0, "steps": 0, "waits": 0, "world_events": 0, "handler_runs": 0, "probes": {},
           "runs_with_probe": {}, "violation_classes": {}, "violations": [], "samples": []}
    distinct = set()
    states = set()
    hashes = {}
    for r in results:
        for k in ("runs", "steps", "waits", "world_events", "handler_runs"):
            agg[k] += r[k]
        for name in ("probes", "runs_with_probe", "violation_classes"):
            for k, v in r[name].items():
                agg[name][k] = agg[name].get(k, 0) + v
        distinct.update(r["distinct"])
        states.update(r["states"])
        for i, h in r["hashes"]:
            hashes[i] = h
        agg["violations"].extend(r["violations"])
        agg["samples"].extend(r["samples"])
    agg["distinct"] = len(distinct)
    agg["states"] = len(states)
    divergent = 0
    checked = 0
    if dr_res is not None:
        for i, h in dr_res["hashes"]:
            if i in hashes:
                checked += 1
                if hashes[i] != h:
                    divergent += 1
    agg["determinism"] = {"seeds_double_run": checked, "divergent": divergent}
    agg["wall_s"] = time.time() - t0
    agg["workers"] = workers
    agg["violations"].sort(key=lambda v: (v["violation"]["class"], len(v["steps"]), v["run_index"]))
    agg["samples"] = sorted(agg["samples"], key=lambda s: s["run_index"])[:3]
    log("[ksim] %d runs, %d world events, %.1fs, %d distinct logs, %d states, violations=%s" % (
        agg["runs"], agg["world_events"], agg["wall_s"], agg["distinct"], agg["states"], agg["violation_classes"]))
    if divergent:
        raise HarnessError("determinism self-check failed: %d of %d double-run seeds diverged" % (divergent, checked))
    return agg


def replay_file(path):
    p = subprocess.run([KSIM_BIN, "replay", path], stdout=subprocess.PIPE, stderr=subprocess.PIPE, text=True)
    return p.returncode, p.stdout
