"""Interactive sessions for engine P: a cicada process on a pty owned by the
simulator. Lines are typed only after the shell has parked at `prompt`, been
released and is blocked reading the terminal, so no keystroke is ever
interpreted by the wrong line discipline."""
import os
import re
import select
import termios
import time

from psim import WATCHDOG, HarnessError, Sim, Violation, proc_fields, proc_state

ANSI = re.compile(rb"\x1b\[[0-9;?]*[ -/]*[@-~]|\x1b[()][0-9A-Za-z]|\x1b[=>]|\r")


class PtyShell:
    """one interactive shell attached to a Sim (its own pty, its own control connection)"""

    def __init__(self, sim, env_extra=None, cwd=None, argv=None, launcher=False):
        self.sim = sim
        env = {"PROMPT": "cic> ", "TERM": "xterm"}
        if env_extra:
            env.update(env_extra)
        self.pid = sim.spawn_shell(argv or [], env_extra=env, pty_mode=True, cwd=cwd, launcher=launcher)
        self.master = sim.master
        self.out = b""          # everything the terminal showed
        self.mark = 0
        self.pgid = None
        sim.idle_cb = self.drain

    def drain(self):
        while True:
            r, _, _ = select.select([self.master], [], [], 0)
            if not r:
                return
            try:
                d = os.read(self.master, 65536)
            except OSError:
                return
            if not d:
                return
            self.out += d

    def text_since_mark(self):
        self.drain()
        t = self.out[self.mark:]
        return ANSI.sub(b"", t).decode(errors="replace")

    def set_mark(self):
        self.drain()
        self.mark = len(self.out)

    def fg_pgrp(self):
        return os.tcgetpgrp(self.master)

    def type(self, data):
        if isinstance(data, str):
            data = data.encode()
        off = 0
        while off < len(data):
            self.drain()
            off += os.write(self.master, data[off:off + 512])

    def type_line(self, text):
        self.type(text)
        self.type(b"\r")

    def raw_mode(self):
        """the line editor has switched the terminal to raw mode (it is reading a line)"""
        a = termios.tcgetattr(self.master)
        return not (a[3] & termios.ICANON)
