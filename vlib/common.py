"""Shared plumbing for the /verif checks: builds, evidence, known findings,
violation reporting. No randomness and no clock reads influence any decision
made here (wall time is only reported)."""
import json
import os
import re
import subprocess
import sys
import time

VERIF = os.path.dirname(os.path.dirname(os.path.abspath(__file__)))
REPO = os.environ.get("VERIF_REPO", "/repo")
CACHE = os.environ.get("VERIF_CACHE") or os.path.join(VERIF, ".cache")
# reach measurement (tools/coverage.sh): VERIF_COVERAGE=<dir> builds shell and ksim with source-based coverage
# instrumentation (nightly toolchain: its llvm-tools read the profiles) into separate target directories
COVERAGE = os.environ.get("VERIF_COVERAGE") or None
HOOK_TARGET = os.path.join(CACHE, "target-hooks-cov" if COVERAGE else "target-hooks")
KSIM_TARGET = os.path.join(CACHE, "target-ksim-cov" if COVERAGE else "target-ksim")
PUP_TARGET = os.path.join(CACHE, "target-pup")
CICADA_BIN = os.path.join(HOOK_TARGET, "debug", "cicada")
KSIM_BIN = os.path.join(KSIM_TARGET, "release", "ksim")
PUP_BIN = os.path.join(PUP_TARGET, "release", "pup")
FINDINGS_FILE = os.path.join(VERIF, "known_findings.txt")
NCPU = os.cpu_count() or 4


class HarnessError(Exception):
    """Infrastructure problem: exit status 2, never a violation."""


def log(msg):
    sys.stderr.write(msg + "\n")
    sys.stderr.flush()


def reset_signal_state():
    """in a freshly forked child: default disposition for every signal and an empty mask, so that nothing of the
    caller's signal state (a background job has SIGINT/SIGQUIT ignored, a supervisor may block signals) reaches the
    processes under test"""
    import signal
    for n in range(1, 32):
        if n in (signal.SIGKILL, signal.SIGSTOP):
            continue
        try:
            signal.signal(n, signal.SIG_DFL)
        except (OSError, ValueError, RuntimeError):
            pass
    try:
        signal.pthread_sigmask(signal.SIG_SETMASK, [])
    except (OSError, ValueError):
        pass


def ensure_std_fds():
    """a caller may have closed 0, 1 or 2: later pipes would land there"""
    for fd in (0, 1, 2):
        try:
            os.fstat(fd)
        except OSError:
            n = os.open("/dev/null", os.O_RDWR)
            if n != fd:
                os.dup2(n, fd)
                os.close(n)


def _cargo_env(hooks):
    env = dict(os.environ)
    env["CARGO_NET_OFFLINE"] = "true"
    if hooks:
        env["RUSTFLAGS"] = "--cfg cicada_verif" + (" -C instrument-coverage" if COVERAGE else "")
        if COVERAGE:
            env["RUSTUP_TOOLCHAIN"] = "nightly"
    else:
        env.pop("RUSTFLAGS", None)
    return env


def _run_cargo(args, cwd, env, what):
    t0 = time.time()
    p = subprocess.run(["cargo"] + args, cwd=cwd, env=env, stdout=subprocess.PIPE,
                       stderr=subprocess.STDOUT, text=True)
    if p.returncode != 0:
        tail = "\n".join(p.stdout.splitlines()[-60:])
        raise HarnessError("build of %s failed:\n%s" % (what, tail))
    log("[build] %s ok (%.1fs)" % (what, time.time() - t0))


def build_cicada_hooks():
    """/repo's current working tree with the hooks on (dev profile, as the baseline tests)."""
    env = _cargo_env(True)
    env["CARGO_TARGET_DIR"] = HOOK_TARGET
    _run_cargo(["build", "--offline", "--bin", "cicada"], REPO, env, "cicada (cfg cicada_verif)")
    if not os.path.exists(CICADA_BIN):
        raise HarnessError("no cicada binary at " + CICADA_BIN)
    return CICADA_BIN


def _sync_lock(crate_dir):
    # new crates resolve offline only with the repository's lock file as a starting point
    src = os.path.join(REPO, "Cargo.lock")
    dst = os.path.join(crate_dir, "Cargo.lock")
    if not os.path.exists(dst) and os.path.exists(src):
        with open(src) as f, open(dst, "w") as g:
            g.write(f.read())


def build_ksim():
    d = os.path.join(VERIF, "sim", "ksim")
    if REPO != "/repo":
        # (trial lane: the crate names its dependency by path; build a copy of the manifest that points at VERIF_REPO)
        alt = os.path.join(CACHE, "ksim-crate")
        os.makedirs(alt, exist_ok=True)
        with open(os.path.join(d, "Cargo.toml")) as f:
            text = f.read().replace('path = "/repo"', 'path = "%s"' % REPO)
        with open(os.path.join(alt, "Cargo.toml"), "w") as f:
            f.write(text)
        link = os.path.join(alt, "src")
        if not os.path.islink(link):
            os.symlink(os.path.join(d, "src"), link)
        d = alt
    _sync_lock(d)
    env = _cargo_env(True)
    env["CARGO_TARGET_DIR"] = KSIM_TARGET
    _run_cargo(["build", "--release", "--offline"], d, env, "ksim (+ cicada lib, cfg cicada_verif)")
    return KSIM_BIN


def build_pup():
    d = os.path.join(VERIF, "sim", "pup")
    _sync_lock(d)
    env = _cargo_env(False)
    # static: the puppet must start under RLIMIT_NOFILE values that leave no descriptor for ld.so
    env["RUSTFLAGS"] = "-C target-feature=+crt-static"
    env["CARGO_TARGET_DIR"] = PUP_TARGET
    _run_cargo(["build", "--release", "--offline"], d, env, "pup (puppet)")
    return PUP_BIN


# ---------------------------------------------------------------- known findings

def load_findings():
    """Lines: 'finding: property=C06 class=... [pred=...] :: text' and
    'fixed: property=C06 <commit> <what failed>' (informational)."""
    out = []
    if not os.path.exists(FINDINGS_FILE):
        return out
    for line in open(FINDINGS_FILE):
        line = line.strip()
        if not line or line.startswith("#"):
            continue
        if line.startswith("finding:"):
            body = line[len("finding:"):].strip()
            head, _, text = body.partition("::")
            fields = dict(kv.split("=", 1) for kv in head.split() if "=" in kv)
            fields["text"] = text.strip()
            out.append(fields)
    return out


def match_finding(findings, prop, cls, preds):
    """preds: set of predicate names that hold on the minimised trace."""
    for f in findings:
        if f.get("property") != prop or (f.get("class") != cls and f.get("class") != "*"):
            continue
        need = [p for p in f.get("pred", "").split(",") if p]
        if all(p in preds for p in need):
            return f
    return None


# ---------------------------------------------------------------- evidence

def write_evidence(prop, tier, seed, coverage, wall_s, violations, assumptions, extra=None):
    d = os.environ.get("VERIF_EVIDENCE_DIR") or os.path.join(VERIF, "evidence")
    os.makedirs(d, exist_ok=True)
    ev = {
        "property_id": prop,
        "tier": tier,
        "seed": int(seed),
        "level": "exploration",
        "coverage": coverage,
        "assumptions": assumptions,
        "wall_s": round(wall_s, 2),
        "violations": int(violations),
    }
    if extra:
        ev.update(extra)
    path = os.path.join(d, prop + ".json")
    tmp = path + ".tmp"
    with open(tmp, "w") as f:
        json.dump(ev, f, indent=1, sort_keys=True)
        f.write("\n")
    os.replace(tmp, path)
    return path


def replay_dir():
    return os.environ.get("VERIF_REPLAY_DIR") or os.path.join(VERIF, "replays")


def save_replay(prop, name, obj):
    d = os.path.join(os.environ.get("VERIF_REPLAY_DIR") or os.path.join(VERIF, "replays"), prop)
    os.makedirs(d, exist_ok=True)
    name = re.sub(r"[^A-Za-z0-9_.-]", "_", name)
    path = os.path.join(d, name + ".json")
    with open(path, "w") as f:
        json.dump(obj, f, indent=1, sort_keys=True)
        f.write("\n")
    return path


def parse_args(argv):
    a = {"prop": None, "tier": os.environ.get("VERIF_TIER", "quick"), "seed": None, "replay": None,
         "build": True, "setup": False, "runs": None, "workers": None, "extra": []}
    pos = []
    i = 0
    while i < len(argv):
        x = argv[i]
        if x == "--seed":
            a["seed"] = int(argv[i + 1]); i += 2
        elif x == "--replay":
            a["replay"] = argv[i + 1]; i += 2
        elif x == "--runs":
            a["runs"] = int(argv[i + 1]); i += 2
        elif x == "--workers":
            a["workers"] = int(argv[i + 1]); i += 2
        elif x == "--no-build":
            a["build"] = False; i += 1
        elif x == "--setup":
            a["setup"] = True; i += 1
        elif x.startswith("--"):
            a["extra"].append(x); i += 1
        else:
            pos.append(x); i += 1
    if pos:
        a["prop"] = pos[0]
    if len(pos) > 1:
        a["tier"] = pos[1]
    if a["seed"] is None:
        a["seed"] = int(os.environ.get("VERIF_SEED", "20261004"))
    if a["tier"] not in ("quick", "thorough"):
        a["tier"] = "quick"
    return a
