"""Entry point of ./check and ./setup.sh."""
import os
import sys

sys.path.insert(0, os.path.dirname(os.path.abspath(__file__)))
import common  # noqa: E402


def setup():
    common.build_cicada_hooks()
    common.build_ksim()
    if os.path.isdir(os.path.join(common.VERIF, "sim", "pup", "src")) and os.path.exists(
            os.path.join(common.VERIF, "sim", "pup", "Cargo.toml")):
        common.build_pup()
    return 0


def main():
    common.ensure_std_fds()
    os.umask(0o022)
    args = common.parse_args(sys.argv[1:])
    try:
        if args["setup"]:
            return setup()
        prop = args["prop"]
        if prop == "C06":
            import c06
            return c06.run(args)
        if prop == "C04":
            import c04
            return c04.run(args)
        if prop == "C08":
            import c08
            return c08.run(args)
        if prop == "C11":
            import c11
            return c11.run(args)
        if prop == "C07":
            import c07
            return c07.run(args)
        if prop == "C18":
            import c18
            return c18.run(args)
        if prop == "C02":
            import c02
            return c02.run(args)
        sys.stderr.write("unknown property %r\n" % prop)
        return 2
    except common.HarnessError as e:
        sys.stderr.write("HARNESS-ERROR: %s\n" % e)
        return 2


if __name__ == "__main__":
    sys.exit(main())
