"""C11 -- command substitution splices the command's output in literally, exactly once (scoped)."""
import signal

import c02
import pbatch
import plines
from plines import LineRunner
from prun import Pipe
from psim import Rng, Violation

PLAIN = "abcdefghijklmnopqrstuvwxyzABCDEFGHIJKLMNOPQRSTUVWXYZ0123456789._-/:,+=@%"
SPECIAL = ["$1", "${x}", "$name", "\\", "\\n", "*", "{a,b}", "?", "[x]", "~", "#", "!", "&", ";", "|", "'", '"',
           "$(", ")", "`", "<", ">", "{1..3}", "$$", "$?"]


def gen_text(rng, cfg, n=None):
    n = n if n is not None else rng.choice([0, 1, 3, 8, 20, 60])
    out = []
    for _ in range(n):
        k = rng.below(100)
        if k < cfg.get("special_pct", 0):
            out.append(rng.choice(cfg.get("specials", SPECIAL)))
        elif k < cfg.get("special_pct", 0) + 8:
            out.append(" ")
        elif k < cfg.get("special_pct", 0) + 12 and cfg.get("inner_newlines", True):
            out.append("\n")
        else:
            out.append(PLAIN[rng.below(len(PLAIN))])
    s = "".join(out)
    if not cfg.get("edge_space", False):
        s = s.strip(" \n")
    return s


def gen_talker(rng, label, cfg):
    """chunk lists for stdout and stderr in a scheduled order"""
    writes = []
    text = gen_text(rng, cfg)
    big = cfg.get("big") and rng.chance(50)
    if cfg.get("stall") and rng.chance(60):
        text = gen_text(rng, cfg, rng.choice([5000, 9000, 20000]))
    if big:
        size = rng.choice([65536, 70000, 140000, 200000])
        writes.append({"fd": 1, "n": size, "seed": 9000 + rng.below(900), "printable": True})
    else:
        # the text in 1..3 chunks
        cuts = sorted(set([0, len(text)] + [rng.below(len(text) + 1) for _ in range(rng.below(3))]))
        for a, b in zip(cuts, cuts[1:]):
            writes.append({"fd": 1, "hex": text[a:b].encode().hex()})
    nl = rng.choice([0, 1, 1, 2, 3])
    if nl:
        writes.append({"fd": 1, "hex": ("\n" * nl).encode().hex()})
    if rng.chance(cfg.get("stderr_pct", 40)):
        esize = rng.choice(cfg.get("stderr_sizes", [10, 10, 100, 5000]))
        pos = rng.below(len(writes) + 1)
        if esize <= 100:
            writes.insert(pos, {"fd": 2, "hex": ("E%s" % label + "e" * esize + "\n").encode().hex()})
        else:
            writes.insert(pos, {"fd": 2, "n": esize, "seed": 7000 + rng.below(900), "printable": True})
    return {"t": "talker", "writes": writes, "code": rng.choice([0, 0, 0, 1, 3]), "chunk": rng.choice([4096, 65536, 100000])}


def pup(name, role, redirs=None, args=None):
    st = {"kind": "pup", "name": name, "text": "pup " + name, "role": role, "redirs": redirs or []}
    if args:
        st["args"] = args
    return st


def gen_inner(rng, tag, cfg):
    k = rng.below(100)
    if k < 55:
        return [pup(tag + "i", gen_talker(rng, tag, cfg))], "text"
    if k < 75:
        n = rng.choice([2, 2, 3])
        text = gen_text(rng, cfg, rng.choice([0, 5, 40, 300]))
        stages = [pup("%si%d" % (tag, 0), {"t": "talker", "writes": [{"fd": 1, "hex": (text + "\n").encode().hex()}],
                                             "code": 0, "on_epipe": "exit"})]
        for i in range(1, n):
            stages.append(pup("%si%d" % (tag, i), {"t": "filter", "code": rng.choice([0, 2]), "rchunk": 65536,
                                                  "on_epipe": "exit"}))
        if rng.chance(35):
            # the last stage prints something of its own and does not depend on what comes down the pipe
            own = gen_text(rng, cfg, rng.choice([3, 12, 60])) or "own"
            stages[-1] = pup("%si%d" % (tag, n - 1), {"t": "talker", "writes": [{"fd": 1, "hex": (own + "\n").encode().hex()}],
                                                      "code": 0, "on_epipe": "exit"})
        return stages, "stream"
    if k < 79:
        # a builtin in front of a program: the program reads whatever the builtin prints (at least the alias defined
        # at the top of the script) and then prints a text of its own
        own = gen_text(rng, dict(cfg, inner_newlines=False), rng.choice([3, 12, 40])) or "own"
        return [{"kind": "builtin", "text": "alias"},
                pup(tag + "i1", {"t": "io", "read": "all", "rchunk": 65536, "code": 0,
                                 "writes": [{"fd": 1, "hex": (own + "\n").encode().hex()}]})], "bhead"
    if k < 83:
        return [{"kind": "builtin", "text": "alias"}], "opaque"
    if k < 90:
        return [{"kind": "notfound", "text": "no_such_cmd_%d" % rng.below(99)}], "empty"
    if k < 92:
        # a background command cannot be captured: a diagnostic, an empty replacement, and the program is not started
        # (modelled as a stage that runs inside the shell: no fork, no pipes)
        return [{"kind": "builtin", "text": "pup %sbg &" % tag}], "empty"
    if rng.chance(40):
        # a function whose body leaves a loop through `break` inside an `if`, after printing
        return [{"kind": "func", "text": "myloop"}], "func2"
    return [{"kind": "func", "text": "myfn"}], "func"


def gen_scenario(rng, cfg):
    lines = [{"stages": [{"kind": "assign", "text": "V=val%d" % rng.below(1000)}], "probe": False, "raw": True,
              "text": "V=val%d" % rng.below(1000)}]
    lines[0]["text"] = lines[0]["stages"][0]["text"]
    n = 1 + rng.below(cfg.get("max_cmds", 3))
    for ci in range(n):
        tag = "q%d" % ci
        nsub = rng.choice([1, 1, 1, 2]) if not cfg.get("big") else 1
        groups = []
        parts = []      # rendered pieces of the word / line
        subs = []
        form = rng.choice(cfg.get("forms", ["argv", "argv", "argv", "quoted", "assign", "hs"]))
        style = rng.choice(["dollar", "dollar", "back"])
        same_word = rng.chance(50)
        if nsub > 1 and (same_word or form != "argv"):
            # several `$(...)` in one word is a recorded text-level finding (explicit case), not re-sampled
            style = "back"
        for si in range(nsub):
            icfg = dict(cfg, inner_newlines=False) if form == "assign" else cfg
            inner, kind = gen_inner(rng, "%ss%d" % (tag, si), icfg)
            if kind == "func2" and (nsub > 1 or cfg.get("faults")):
                inner, kind = [{"kind": "func", "text": "myfn"}], "func"
            if cfg.get("big") and kind != "text":
                inner, kind = [pup("%ss%di" % (tag, si), gen_talker(rng, "%ss%d" % (tag, si), cfg))], "text"
            inner_text = " | ".join(plines.render_stage(s) for s in inner)
            sub = "$(%s)" % inner_text if style == "dollar" else "`%s`" % inner_text
            pre = gen_text(rng, {"special_pct": 0, "inner_newlines": False}, rng.choice([1, 2, 4])).replace(" ", "x") or "p"
            post = gen_text(rng, {"special_pct": 0, "inner_newlines": False}, rng.choice([0, 1, 3])).replace(" ", "y")
            subs.append({"inner": inner, "kind": kind, "pre": pre, "post": post, "text": sub})
            if kind == "func2":
                # the commands the body runs, in order: the condition, the printing command inside the `if`, (break),
                # the command after the loop -- each captured on its own; the pieces are joined by single blanks
                groups.append({"stages": [pup("fl_t", {"t": "talker", "writes": [], "code": 0})], "capture": True, "func": True})
                groups.append({"stages": [pup("fl_o", {"t": "talker", "writes": [{"fd": 1, "hex": b"found\n".hex()}], "code": 0})],
                               "capture": True, "func": True})
                groups.append({"stages": [pup("fl_e", {"t": "talker", "writes": [{"fd": 1, "hex": b"end\n".hex()}], "code": 0})],
                               "capture": True, "func": True})
            elif kind != "func":
                groups.append({"stages": inner, "capture": True})
            else:
                groups.append({"stages": [pup("fn_inner", {"t": "talker", "writes": [
                    {"fd": 1, "hex": b"fnout\n".hex()}], "code": 0})], "capture": True, "func": True})
        if form == "argv" and nsub == 1 and cfg.get("special_pct", 0) and rng.chance(35) and subs[0]["kind"] == "text":
            # the whole unquoted word is the substitution and its output looks like a pattern that matches
            # files of the working directory: it must still arrive as one literal word
            subs[0]["pre"] = ""
            subs[0]["post"] = ""
            pat = rng.choice(["*", "s.*", "f*", "*.sh", "no*", "d?"])
            subs[0]["inner"][-1]["role"] = {"t": "talker", "writes": [{"fd": 1, "hex": (pat + "\n").encode().hex()}], "code": 0}
        words = []
        if same_word or form != "argv":
            words.append("".join(s["pre"] + s["text"] + s["post"] for s in subs))
        else:
            for s in subs:
                words.append(s["pre"] + s["text"] + s["post"])
        line = {"probe": False, "subs": subs, "form": form, "same_word": same_word or form != "argv",
                "dones": 1 + sum(1 for x in subs if x["kind"] == "func") + sum(3 for x in subs if x["kind"] == "func2")}
        lead, trail = [], []
        if form == "argv" and rng.chance(40):
            lead = [rng.choice(["'s q'", "plain", '"d q"', "'x'"])]
        if form == "argv" and rng.chance(25):
            trail = [rng.choice(["'t q'", "end"])]
        line["lead"] = lead
        line["trail"] = trail
        if form == "argv":
            outer = [pup(tag + "o", {"t": "ignorer", "code": 0}, args=lead + words + trail)]
        elif form == "quoted":
            outer = [pup(tag + "o", {"t": "ignorer", "code": 0}, args=['"lead ' + words[0] + ' tail"'])]
        elif form == "assign":
            outer = [{"kind": "assign", "text": "W%d=%s" % (ci, words[0])}]
        else:
            outer = [pup(tag + "o", {"t": "io", "read": "all", "writes": [], "code": 0, "rchunk": 65536},
                         redirs=[{"k": "hs", "word": words[0], "size": 0, "from_subst": True}])]
        groups.append({"stages": outer, "capture": False})
        line["groups"] = groups
        line["stages"] = outer
        lines.append(line)
        if form == "assign":
            lines.append({"stages": [pup(tag + "a", {"t": "ignorer", "code": 0}, args=["$W%d" % ci])], "probe": False,
                          "uses_var": ci})
        lines.append({"stages": [pup("prb%d" % ci, {"t": "ignorer", "code": 0}, args=["$V", "$?"])], "probe": True})
    if any(x["kind"] == "bhead" for l in lines for x in l.get("subs", [])):
        lines.insert(1, {"stages": [{"kind": "builtin", "text": "alias zq='true'"}], "probe": False})
    sc = {"prop": "C11", "lines": lines, "externals": [], "faults": {}, "files": {}}
    if cfg.get("faults"):
        kind = rng.choice(["pipe", "fork"])
        sc["faults"] = {kind: [1 + rng.below(6), int(24 if kind == "pipe" else 11)]}
    return plines.LineRunner.rebuild(sc)


def gen_multiline(rng):
    """`cicada -c` with one double-quoted word spanning several lines, one substitution per line"""
    if rng.chance(20):
        # the substitution itself spans a line break: the pinned tree prints a diagnostic and leaves the text alone;
        # whatever it does, it has to finish and must not start the inner command more than once (here: not at all,
        # so any start of `mxi` shows up as a program other than the scheduled one)
        word = '"[$(pup mxi a\nb)]"'
        outer = [pup("mo", {"t": "ignorer", "code": 0}, args=[word])]
        line = {"probe": False, "subs": [{"inner": [], "kind": "opaque", "pre": "[", "post": "]", "text": "$(pup mxi a\nb)"}],
                "form": "mline", "same_word": True, "dones": 1, "stages": outer,
                "groups": [{"stages": outer, "capture": False}]}
        sc = {"prop": "C11", "lines": [line], "externals": [], "faults": {}, "files": {}, "dash_c": True}
        return plines.LineRunner.rebuild(sc)
    nl = rng.choice([2, 2, 3])
    subs, groups, pieces = [], [], []
    for i in range(nl):
        text = gen_text(rng, {"special_pct": 0, "inner_newlines": False}, rng.choice([1, 4, 12])) or "t"
        inner = [pup("m%di" % i, {"t": "talker", "writes": [{"fd": 1, "hex": (text + "\n").encode().hex()}],
                                  "code": 0})]
        # (backquotes on a non-last line of a multi-line word are not substituted at all by the
        # pinned tree -- a text-level deviation noted in DESIGN.md; only `$(...)` is sampled here)
        style = "dollar"
        sub = "$(pup m%di)" % i if style == "dollar" else "`pup m%di`" % i
        pre = "l%d " % i if i == 0 else "\nl%d " % i
        subs.append({"inner": inner, "kind": "text", "pre": pre, "post": rng.choice(["", " z"]), "text": sub})
        groups.append({"stages": inner, "capture": True})
    # backquotes are substituted before $(...): the fork order follows that
    order = [i for i, x in enumerate(subs) if x["text"].startswith("`")] + \
            [i for i, x in enumerate(subs) if x["text"].startswith("$(")]
    word = '"' + "".join(x["pre"] + x["text"] + x["post"] for x in subs) + '"'
    outer = [pup("mo", {"t": "ignorer", "code": 0}, args=[word])]
    line = {"probe": False, "subs": subs, "form": "mline", "same_word": True, "dones": 1, "stages": outer,
            "groups": [groups[i] for i in order] + [{"stages": outer, "capture": False}], "sub_order": order}
    sc = {"prop": "C11", "lines": [line], "externals": [], "faults": {}, "files": {}, "dash_c": True}
    return plines.LineRunner.rebuild(sc)


def printable_stream(seed, n):
    """deterministic printable text of n bytes (letters and digits only)"""
    from psim import stream_bytes
    raw = stream_bytes(seed, 0, n)
    out = bytearray()
    i = 0
    # letters and digits with multi-byte characters sprinkled in at irregular distances, so that
    # some of them straddle whatever chunk size the reader uses
    while len(out) < n:
        b = raw[i % len(raw)] if raw else 0
        i += 1
        if b % 11 == 0 and len(out) + 3 <= n:
            out += "€".encode()
        elif b % 13 == 0 and len(out) + 2 <= n:
            out += "é".encode()
        else:
            out.append(PLAIN.encode()[b % 62])
    return bytes(out)


class C11Runner(LineRunner):
    prop = "C11"

    def script_text(self):
        head = "function myfn() {\n    pup fn_inner\n}\n"
        head += ("function myloop() {\n    for x in a b\n        if pup fl_t\n            pup fl_o\n            break\n"
                 "        fi\n        pup fl_n\n    done\n    pup fl_e\n}\n")
        return head + "".join(plines.render_line(l) + "\n" for l in self.sc["lines"])

    def pipe_fault(self, k):
        f = self.sc.get("faults", {}).get("pipe")
        return f[1] if f and f[0] == k else None

    def fork_fault(self, k):
        f = self.sc.get("faults", {}).get("fork")
        return f[1] if f and f[0] == k else None

    def line_groups(self, line):
        out = []
        for g in LineRunner.line_groups(self, line):
            stages = [s for s in g["stages"] if s["kind"] not in ("assign",)]
            out.append(dict(g, stages=stages or [{"kind": "builtin", "text": ""}]))
        return out

    def start_line(self):
        LineRunner.start_line(self)
        self.vars = getattr(self, "vars", {})

    # -- expected replacement text of the k-th substitution of a line
    def expected_sub(self, line, k):
        order = line.get("sub_order")
        G = line["_groups"][order.index(k) if order else k]
        sub = line["subs"][k]
        if sub["kind"] == "opaque":
            return None
        if sub["kind"] == "func2":
            self.sim.probe("function_with_break_inside_if_captured")
            return b"found end"
        if G.pipe_failed:
            return None
        if G.forks_failed:
            # a stage that could not be started: if it was not the last one, the last stage still ran and
            # what it printed is the replacement
            last = G.stages[-1]
            if getattr(last, "fork_failed", False) or last.pid is None:
                return None
            self.sim.probe("inner_pipeline_with_an_unstartable_earlier_stage")
        if sub["kind"] == "empty":
            return b""
        data = bytes(G.cap_out.fifo)
        return data.rstrip(b"\n")

    def expected_word(self, line):
        """the word(s) the outer command must receive, None when not modelled"""
        words = []
        cur = b""
        for k, sub in enumerate(line["subs"]):
            e = self.expected_sub(line, k)
            if e is None:
                return None
            piece = sub["pre"].encode() + e + sub["post"].encode()
            if line["same_word"]:
                cur += piece
            else:
                words.append(piece)
        if line["same_word"]:
            words.append(cur)
        return words

    def wire_stage(self, st):
        line = self.sc["lines"][st.line_no]
        for r in st.spec.get("redirs", []):
            if r.get("from_subst"):
                w = self.expected_word(line)
                st.hs_unmodelled = w is None
                r["word"] = (w[0].decode("utf-8") if w else "")
                if w is not None and w[0] == b"":
                    r["word"] = '""'
        LineRunner.wire_stage(self, st)
        if getattr(st, "hs_unmodelled", False) and st.hs is not None:
            st.hs.opaque = True

    def model_write(self, st, data, fd=1):
        LineRunner.model_write(self, st, data, fd)

    def do_step(self, st, step):
        # printable payloads: the talker's big writes are letters and digits
        if step == "twrite":
            w = st.role["writes"][st.wi]
            if w.get("printable") and "hex" not in w:
                w["hex"] = printable_stream(w["seed"], w["n"]).hex()
        LineRunner.do_step(self, st, step)

    def on_hello(self, st):
        sim = self.sim
        line = self.sc["lines"][st.line_no]
        G = st.group
        argv = [a.encode("utf-8", "replace") for a in st.pup.hello["argv"]]
        if G.capture:
            sim.probe("inner_command_started")
            f2 = st.pup.fds.get(2)
            if st.idx == st.n - 1 and f2 is not None and f2["link"].startswith("pipe:["):
                sim.probe("inner_stderr_is_a_capture_pipe")
            return
        if line.get("probe"):
            first = self.sc["lines"][0].get("text", "")
            want_v = first.split("=", 1)[1].encode() if first.startswith("V=") else None
            if want_v is not None and (len(argv) < 3 or argv[2] != want_v):
                raise Violation("shell_state_changed", "$V expands to %r after a substitution, it was set to %r" % (
                    argv[2:3], want_v))
            extra = sorted(fd for fd in st.pup.fds if fd > 2)
            if extra:
                raise Violation("shell_state_changed", "the command after a substitution starts with extra descriptors %s" % extra)
            for fd in (0, 1, 2):
                if st.pup.fds.get(fd, {}).get("link") != self.shell_fds0.get(fd):
                    raise Violation("shell_state_changed", "descriptor %d of the next command is %s, not the shell's" % (
                        fd, self.short(st.pup.fds.get(fd, {}).get("link"))))
            return
        if "uses_var" in line:
            want = self.vars.get(line["uses_var"])
            if want is not None and want != b"":
                if argv[2:] != [want]:
                    raise Violation("argv_mismatch", "variable assigned from a substitution holds %r, expected %r" % (
                        self.clip(argv[2:]), self.clip([want])))
                sim.probe("assignment_from_substitution_checked")
            return
        if "subs" not in line:
            return
        words = self.expected_word(line)
        if words is None:
            sim.probe("unmodelled_inner_output")
            return
        form = line["form"]
        if form == "argv":
            unq = {"'s q'": b"s q", "plain": b"plain", '"d q"': b"d q", "'x'": b"x", "a\\ b": b"a b",
                   "'t q'": b"t q", "end": b"end"}
            want = [unq[a] for a in line.get("lead", [])] + [w for w in words] + [unq[a] for a in line.get("trail", [])]
            got = argv[2:]
            if line.get("lead"):
                sim.probe("quoted_or_escaped_word_before_the_substitution")
            if got != want:
                # stderr text in the word?
                for sub in line["subs"]:
                    for stg in sub["inner"]:
                        for w in (stg.get("role") or {}).get("writes", []):
                            if w["fd"] == 2 and "hex" in w:
                                marker = bytes.fromhex(w["hex"]).strip()
                                if marker and any(marker in a for a in got) and not any(marker in x for x in want):
                                    raise Violation("stderr_in_word", "stderr text of the inner command appears in %r" % self.clip(got))
                raise Violation("argv_mismatch", "outer command received %s, expected %s" % (self.clip(got), self.clip(want)))
            sim.probe("argv_checked")
            if any(len(w) > 60000 for w in want):
                sim.probe("argv_checked_large")
        elif form == "mline":
            if argv[2:] != words:
                raise Violation("argv_mismatch", "outer command received %s, expected %s" % (self.clip(argv[2:]), self.clip(words)))
            sim.probe("multi_line_word_checked")
        elif form == "quoted":
            want = [b"lead " + words[0] + b" tail"]
            if argv[2:] != want:
                raise Violation("argv_mismatch", "outer command received %s, expected %s" % (self.clip(argv[2:]), self.clip(want)))
            sim.probe("argv_checked")

    def clip(self, words):
        return [w if len(w) <= 60 else w[:40] + b"...(%d bytes)" % len(w) for w in words]

    def check_line_done(self, line, status):
        sim = self.sim
        if (line.get("text") or "").startswith("alias zq="):
            self.alias_defined = True
        if "subs" in line:
            for k, sub in enumerate(line["subs"]):
                order = line.get("sub_order")
                G = line["_groups"][order.index(k) if order else k]
                if G.pipe_failed or G.forks_failed:
                    sim.probe("capture_setup_failed_by_injection")
                    continue
                for st in G.stages:
                    if st.in_process:
                        continue
                    if st.started != 1:
                        raise Violation("inner_ran_n_times", "%s was started %d times" % (st.label(), st.started))
                    if st.pid is not None and not st.gone:
                        raise Violation("no_termination", "line finished while inner command %s is alive" % st.label())
                if sub["kind"] == "bhead" and getattr(self, "alias_defined", False):
                    if G.stages[-1].read_total == 0:
                        raise Violation("stream_corrupt", "inside the substitution %s got nothing from the builtin in front "
                                        "of it (`alias` with one alias defined prints a line)" % G.stages[-1].label())
                    sim.probe("builtin_feeding_a_program_inside_a_substitution")
            if line["form"] == "assign":
                w = self.expected_word(line)
                idx = [i for i, l in enumerate(self.sc["lines"]) if l is line][0]
                ci = [l.get("uses_var") for l in self.sc["lines"][idx + 1:idx + 2]]
                if ci and ci[0] is not None:
                    self.vars[ci[0]] = w[0] if w is not None else None
            if any(s["kind"] == "empty" for s in line["subs"]):
                sim.probe("failing_inner_command_gave_empty_replacement")
        outer = line["_outer"]
        for st in outer.stages:
            if st.pid is not None and not st.gone:
                raise Violation("no_termination", "line finished while %s is alive" % st.label())

    def pup_did_not_start(self, st):
        if self.sc.get("faults"):
            return
        raise Violation("inner_ran_n_times" if st.group.capture else "argv_mismatch",
                        "%s never executed its program" % st.label())

    def on_finish(self, exit_status):
        if self.cur is not None:
            raise Violation("no_termination", "the shell exited with status %d while line %d (%s) was running" % (
                exit_status, self.line_no, self.cur["text"][:60]))


BENIGN = {"special_pct": 0}
CONFIGS = {
    "plain": (dict(BENIGN, max_cmds=3), 19),
    "stalled_shell": (dict(BENIGN, max_cmds=2, stall=True, stderr_pct=60, stderr_sizes=[10, 5000, 70000]), 8),
    "multiline_c": (dict(BENIGN), 8),
    "big_stdout": (dict(BENIGN, max_cmds=1, big=True, forms=["hs", "hs", "assign_big"], stderr_pct=30), 15),
    "stderr_volume": (dict(BENIGN, max_cmds=2, stderr_pct=100, stderr_sizes=[100, 5000, 60000, 70000]), 15),
    "faults": (dict(BENIGN, max_cmds=2, faults=True), 15),
    "special_text": ({"special_pct": 25, "max_cmds": 2, "edge_space": False,
                      "forms": ["argv", "argv", "quoted", "hs"],
                      "specials": ["*", "{a,b}", "?", "[x]", "~", "#", "!", ";", "|", "&"]}, 20),
}

TIERS = {"quick": 2000, "thorough": 30000}


def make_case(seed, index):
    rng = Rng(seed, index)
    r = rng.below(100)
    acc = 0
    name = "plain"
    for k, (cfg, share) in CONFIGS.items():
        acc += share
        if r < acc:
            name = k
            break
    cfg = dict(CONFIGS[name][0])
    if "assign_big" in cfg.get("forms", []):
        cfg["forms"] = ["hs"]
    if name == "multiline_c":
        sc = gen_multiline(rng)
    else:
        sc = gen_scenario(rng, cfg)
    sc["config"] = name
    if name == "plain" and rng.chance(20):
        sc["hostile_env"] = True
    sc["adversarial_picks"] = rng.choice([0, 5, 20, 60, 150])
    if cfg.get("stall"):
        sc["stall_shell"] = True
        sc["stall_until_idle"] = rng.chance(60)
        sc["adversarial_picks"] = rng.choice([20, 60, 150])
    return sc, rng


def signature(v):
    preds = set()
    for l in v["scenario"].get("lines", []):
        for g in l.get("groups", []):
            if not g.get("capture"):
                continue
            for st in g["stages"]:
                for w in (st.get("role") or {}).get("writes", []):
                    if w["fd"] == 2 and w.get("n", 0) > 65536 - 200:
                        preds.add("inner_stderr_over_a_pipe_buffer")
    if "shell blocked in read" in v["violation"].get("detail", ""):
        preds.add("shell_blocked_in_read")
    import re
    for l in v["scenario"].get("lines", []):
        subs = l.get("subs") or []
        if l.get("same_word") and l.get("form") != "mline" and sum(1 for x in subs if x["text"].startswith("$(")) >= 2:
            # (on one line: in a multi-line word the greedy match stops at the line end)
            preds.add("several_dollar_substitutions_in_one_word")
        for k, x in enumerate(subs):
            out = b""
            for st in x["inner"][-1:]:
                for w in (st.get("role") or {}).get("writes", []):
                    if w["fd"] == 1 and "hex" in w:
                        out += bytes.fromhex(w["hex"])
            if len(x["inner"]) > 1:
                for w in (x["inner"][0].get("role") or {}).get("writes", []):
                    if w["fd"] == 1 and "hex" in w:
                        out += bytes.fromhex(w["hex"])
            out = out.rstrip(b"\n")
            if re.search(rb"\{\d+\.\.\d+\}", out):
                preds.add("brace_range_in_output")
            if b">" in out or b"<" in out:
                preds.add("redirection_character_in_output")
            if b"\n" in out and l.get("form") == "assign":
                preds.add("newline_inside_output_assigned_to_variable")
    return preds


def explicit_cases():
    """one deterministic case per recorded text-level finding (so that each stays visible)"""
    def talk(name, text):
        return pup(name, {"t": "talker", "writes": [{"fd": 1, "hex": (text + "\n").encode().hex()}], "code": 0})

    def line(form, subs_spec, same_word=True):
        subs, groups = [], []
        for i, (text, pre, post) in enumerate(subs_spec):
            inner = [talk("e%di" % i, text)]
            subs.append({"inner": inner, "kind": "text", "pre": pre, "post": post, "text": "$(pup e%di)" % i})
            groups.append({"stages": inner, "capture": True})
        word = "".join(x["pre"] + x["text"] + x["post"] for x in subs)
        if form == "argv":
            outer = [pup("eo", {"t": "ignorer", "code": 0}, args=[word])]
        else:
            outer = [{"kind": "assign", "text": "W0=" + word}]
        groups.append({"stages": outer, "capture": False})
        return {"probe": False, "subs": subs, "form": form, "same_word": same_word, "dones": 1, "groups": groups,
                "stages": outer}

    cases = []
    # the inner command fills the stderr capture pipe before it closes stdout
    for esize, order in ((60000, "err_first"), (70000, "err_first"), (140000, "err_first"), (70000, "out_first")):
        ws = [{"fd": 2, "n": esize, "seed": 7100, "printable": True}, {"fd": 1, "hex": b"text\n".hex()}]
        if order == "out_first":
            ws.reverse()
        inner = [pup("e0i", {"t": "talker", "writes": ws, "code": 0, "chunk": 65536})]
        subs = [{"inner": inner, "kind": "text", "pre": "p", "post": "q", "text": "$(pup e0i)"}]
        outer = [pup("eo", {"t": "ignorer", "code": 0}, args=["p$(pup e0i)q"])]
        l = {"probe": False, "subs": subs, "form": "argv", "same_word": True, "dones": 1, "stages": outer,
             "groups": [{"stages": inner, "capture": True}, {"stages": outer, "capture": False}]}
        sc = {"prop": "C11", "lines": [{"stages": [{"kind": "assign", "text": "V=val1"}], "probe": False, "raw": True,
                                         "text": "V=val1"}, l,
                                        {"stages": [pup("prb0", {"t": "ignorer", "code": 0}, args=["$V", "$?"])], "probe": True}],
              "externals": [], "faults": {}, "files": {}, "config": "stderr_volume_explicit", "adversarial_picks": 30}
        cases.append(plines.LineRunner.rebuild(sc))
    # the inner command closes its stdout long before it is done and reports on stderr afterwards: the shell
    # has to keep the stderr capture open until the command is gone (no EPIPE/SIGPIPE for the command), the
    # word is what was written before the close, and the command's own status is seen (round 7)
    for ci, (late, code, spelling) in enumerate(((b"late progress\n", 0, "$(pup e0i)"), (b"late progress\n", 3, "`pup e0i`"),
                                                 (None, 0, "$(pup e0i)"), (None, 3, "`pup e0i`"))):
        ws = [{"fd": 1, "hex": b"text\n".hex()}, {"fd": 1, "close": True},
              {"fd": 2, "hex": late.hex()} if late else {"fd": 2, "n": 70000, "seed": 7200 + ci, "printable": True},
              {"fd": 2, "hex": b"done\n".hex()}]
        inner = [pup("e0i", {"t": "talker", "writes": ws, "code": code, "chunk": 65536})]
        subs = [{"inner": inner, "kind": "text", "pre": "p", "post": "q", "text": spelling}]
        outer = [pup("eo", {"t": "ignorer", "code": 0}, args=["p" + spelling + "q"])]
        l = {"probe": False, "subs": subs, "form": "argv", "same_word": True, "dones": 1, "stages": outer,
             "groups": [{"stages": inner, "capture": True}, {"stages": outer, "capture": False}]}
        sc = {"prop": "C11", "lines": [{"stages": [{"kind": "assign", "text": "V=val1"}], "probe": False, "raw": True,
                                         "text": "V=val1"}, l,
                                        {"stages": [pup("prb0", {"t": "ignorer", "code": 0}, args=["$V", "$?"])], "probe": True}],
              "externals": [], "faults": {}, "files": {}, "config": "stdout_closed_early_explicit", "adversarial_picks": 30}
        cases.append(plines.LineRunner.rebuild(sc))
    for first_fd, burst in ((1, 4096), (2, 4096), (1, 8192), (1, 65536)):
        other = 2 if first_fd == 1 else 1
        ws = [{"fd": first_fd, "n": burst, "seed": 7300 + burst, "printable": True},
              {"fd": other, "n": 100000, "seed": 7400 + burst, "printable": True},
              {"fd": first_fd, "hex": b"END\n".hex()}]
        inner = [pup("e0i", {"t": "talker", "writes": ws, "code": 0, "chunk": 65536})]
        subs = [{"inner": inner, "kind": "text", "pre": "p", "post": "q", "text": "$(pup e0i)"}]
        outer = [pup("eo", {"t": "io", "read": "all", "writes": [], "code": 0, "rchunk": 65536},
                     redirs=[{"k": "hs", "word": "p$(pup e0i)q", "size": 0, "from_subst": True}])]
        l = {"probe": False, "subs": subs, "form": "hs", "same_word": True, "dones": 1, "stages": outer,
             "groups": [{"stages": inner, "capture": True}, {"stages": outer, "capture": False}]}
        sc = {"prop": "C11", "lines": [{"stages": [{"kind": "assign", "text": "V=val1"}], "probe": False, "raw": True,
                                         "text": "V=val1"}, l,
                                        {"stages": [pup("prb0", {"t": "ignorer", "code": 0}, args=["$V", "$?"])], "probe": True}],
              "externals": [], "faults": {}, "files": {}, "config": "chunk_multiple_explicit", "adversarial_picks": 30}
        cases.append(plines.LineRunner.rebuild(sc))
    for l in (line("argv", [("one", "a", "b"), ("two", "", "c")]),
              line("argv", [("x{1..3}y", "p", "q")]),
              line("argv", [("left>right", "p", "q")]),
              line("assign", [("first\nsecond", "p", "q")])):
        lines = [{"stages": [{"kind": "assign", "text": "V=val1"}], "probe": False, "raw": True, "text": "V=val1"}, l]
        if l["form"] == "assign":
            lines.append({"stages": [pup("ea", {"t": "ignorer", "code": 0}, args=["$W0"])], "probe": False, "uses_var": 0})
        sc = {"prop": "C11", "lines": lines, "externals": [], "faults": {}, "files": {}, "config": "known_text_findings",
              "adversarial_picks": 0}
        cases.append(plines.LineRunner.rebuild(sc))
    return cases


def run(args):
    return pbatch.run_check(
        prop="C11", args=args, runner=C11Runner, make_case=make_case, runs=TIERS[args["tier"]],
        extra_cases=explicit_cases(),
        rule="one evaluation = one simulated script of 1..3 commands whose words contain $(...) or `...` (at word "
             "start/middle/end, in double quotes, in assignments, in here-strings, several per word or line); the inner "
             "command is a talker puppet (stdout and stderr chunk lists, 0 B .. 200 kB, any order), a pipeline of "
             "puppets, a builtin, a function, or a missing command; chunking, volume and order of the inner writes vs. "
             "the parent's sequential reads of the two capture pipes, and pipe()/fork() failures while the capture is "
             "set up, are scheduler/fault decisions; distinct = distinct canonical event-log hashes among runs in "
             "which an inner command ran",
        nontrivial=lambda sc, res: res["probes"].get("inner_command_started", 0) >= 1,
        signature=signature,
        components={
            "real": ["cicada binary: do_command_substitution_for_dollar/_dot, run_pipeline(capture=true), capture pipes read "
                     "by the parent, splice into the word, tokenizer and expansion passes", "Linux kernel"],
            "stub": ["inner and outer commands are puppets (outer reports its argv / reads its here-string)",
                     "blocking waitpid executed as park + WNOHANG"],
        },
        assumptions=[
            "text clauses (which characters of the output are re-interpreted, trimming) are only sampled: the generated "
            "alphabet is letters, digits and ._-/:,+=@% plus, in one configuration, glob/brace/comment/operator characters; "
            "`$`, backslash, quotes and leading/trailing blanks in the output are not sampled",
            "`its stderr is unaffected` is read as: stderr text never enters the word and the shell's descriptor 2 is intact",
        ],
    )
