"""C04 -- redirections connect exactly the named descriptors to the named files."""
import signal

import c02
import pbatch
import plines
from plines import FileWorld, LineRunner, gen_redirs
from prun import OFD, Pipe, Std
from psim import Rng, Violation


def gen_io_role(rng, label, reads_stdin):
    writes = []
    for k in range(rng.choice([1, 2, 2, 3])):
        fd = rng.choice([1, 1, 2])
        if rng.chance(12):
            writes.append({"fd": fd, "n": rng.choice([5000, 70000]), "seed": 500 + rng.below(50000)})
        else:
            writes.append({"fd": fd, "hex": ("<%s:%d:fd%d>\n" % (label, k, fd)).encode().hex()})
    read = "none"
    if reads_stdin:
        read = rng.choice(["all", "all", "all", "all", "none", 3, 40000])
    return {"t": "io", "read": read, "writes": writes, "code": rng.choice([0, 0, 0, 1, 7, 200]),
            "rchunk": rng.choice([4096, 65536, 100000]), "on_epipe": rng.choice(["sigpipe", "exit"])}


def gen_scenario(rng, cfg):
    fw = FileWorld(rng)
    lines = []
    ncmd = 1 + rng.below(cfg.get("max_cmds", 3))
    for ci in range(ncmd):
        if cfg.get("builtins") and rng.chance(20):
            # the `read` builtin takes its line from `< file` or `<<< word`; a second command shows the variable
            if rng.chance(50):
                redir = {"k": "in", "target": rng.choice(["in0", "in0", "nofile"])}
                value = None if redir["target"] == "nofile" else "input zero"
            else:
                w = "".join("abcdefghij0123456789"[(i * 3 + ci) % 20] for i in range(rng.choice([1, 5, 40])))
                redir = {"k": "hs", "word": w, "size": len(w)}
                value = w
            lines.append({"stages": [{"kind": "builtin", "text": "read RV%d" % ci, "redirs": [redir]}], "probe": False,
                          "read_value": value})
            lines.append({"stages": [{"kind": "pup", "name": "rp%d" % ci, "text": "pup rp%d" % ci, "args": ["$RV%d" % ci, "end"],
                                       "role": {"t": "io", "read": "none", "writes": [], "code": 0}, "redirs": []}],
                          "probe": False, "shows_read": value, "after_read_status": value is None})
        elif cfg.get("substitutions") and rng.chance(45):
            # a redirected command inside a command substitution: the capture pipes take the streams
            # that are not redirected (dup forms are not generated there: the code documents that
            # `2>&1` inside a substitution is not supported)
            name = "c%d_i" % ci
            redirs = [r for r in gen_redirs(rng, allow_bad=False, allow_in=False) if r["k"] == "out"]
            if not redirs:
                redirs = [{"k": "out", "fd": rng.choice([1, 2]), "append": rng.chance(40), "target": rng.choice(plines.FILES),
                           "spaced": rng.chance(50), "explicit1": False}]
            role = gen_io_role(rng, name, False)
            # (markers without `<`/`>`: in a substitution they would be re-read as redirections -- a recorded
            # text-level finding of C11, not this check's subject)
            role["writes"] = [{"fd": w["fd"], "hex": ("m-%s-%d-fd%d\n" % (name, i, w["fd"])).encode().hex()}
                              for i, w in enumerate(role["writes"])]
            if not any(w["fd"] == 2 for w in role["writes"]):
                role["writes"].append({"fd": 2, "hex": ("m-%s-err\n" % name).encode().hex()})
            inner = [{"kind": "pup", "name": name, "role": role, "text": "pup " + name, "redirs": redirs}]
            if rng.chance(40):
                # an inner pipeline: its first stage may merge its streams into the stage pipe
                up_redirs = [{"k": "dup", "from": 2, "to": 1}] if rng.chance(50) else \
                    ([{"k": "dup", "from": 1, "to": 2, "explicit1": rng.chance(50)}] if rng.chance(40) else [])
                up = {"kind": "pup", "name": name + "u", "text": "pup " + name + "u", "redirs": up_redirs,
                      "role": {"t": "io", "read": "none", "code": 0, "on_epipe": "exit", "writes": [
                          {"fd": 1, "hex": ("m-%su-out\n" % name).encode().hex()},
                          {"fd": 2, "hex": ("m-%su-err\n" % name).encode().hex()}]}}
                role["read"] = "all"
                inner = [up] + inner
            inner_text = " | ".join(plines.render_stage(x) for x in inner)
            sub = "$(%s)" % inner_text if rng.chance(60) else "`%s`" % inner_text
            outer = [{"kind": "pup", "name": "c%d_o" % ci, "text": "pup c%d_o" % ci, "args": ["w" + sub],
                      "role": {"t": "io", "read": "none", "writes": [], "code": 0}, "redirs": []}]
            lines.append({"groups": [{"stages": inner, "capture": True}, {"stages": outer, "capture": False}],
                          "stages": outer, "probe": False})
        elif cfg.get("builtins") and rng.chance(25):
            # an output-producing builtin running inside the shell process, redirected
            redirs = [r for r in gen_redirs(rng, allow_bad=rng.chance(30), allow_in=False) if r["k"] in ("out", "dup")]
            b = rng.choice(["alias", "cd /nonexistent_zz"])
            st = {"kind": "builtin", "text": b, "redirs": redirs}
            lines.append({"stages": [st], "probe": False})
        else:
            n = rng.choice([1, 1, 2, 2, 3])
            rstage = rng.below(n)
            stages = []
            for i in range(n):
                redirs = []
                if i == rstage or rng.chance(25):
                    redirs = gen_redirs(rng, allow_bad=cfg.get("bad", True),
                                        hs_sizes=cfg.get("hs_sizes", (0, 1, 5, 100, 70000, 150000)))
                if redirs and rng.chance(12) and redirs[0]["k"] == "out" and redirs[0]["fd"] == 1 \
                        and not redirs[0].get("explicit1"):
                    # an argument ending in a digit glued to the operator: still an argument, not a descriptor number
                    redirs[0]["glue_arg"] = rng.choice(["-1", "-7", "+3", "x9", "-n2"])
                name = "c%d_%d" % (ci, i)
                uarg = None
                if redirs and rng.chance(15) and not any(r.get("glue_arg") for r in redirs):
                    # a word with multi-byte characters in front of the redirections (byte and character
                    # positions on the line differ from there on)
                    uarg = rng.choice(["caf\u00e9", "\u00fc", "a\u00f1\u00e9", "\u20ac5", "x\u00e9y\u00e9z"])
                has_in = any(r["k"] in ("in", "hs") for r in redirs)
                role = gen_io_role(rng, name, has_in or i > 0)
                if (has_in or i > 0) and i < n - 1 and not any(r["k"] == "out" and r["fd"] == 1 for r in redirs) \
                        and rng.chance(30):
                    # copies its input to the next stage (like cat)
                    role = {"t": "filter", "code": rng.choice([0, 0, 3]), "rchunk": rng.choice([4096, 65536]),
                            "on_epipe": rng.choice(["sigpipe", "exit"])}
                stages.append({"kind": "pup", "name": name, "role": role, "text": "pup " + name, "redirs": redirs})
                if uarg:
                    stages[-1]["args"] = [uarg]
                    stages[-1]["plain_args"] = True
            lines.append({"stages": stages, "probe": False})
        lines.append({"stages": [{"kind": "pup", "name": "prb%d" % ci, "text": "pup prb%d" % ci, "args": ["$?"],
                                   "role": {"t": "io", "read": "none", "code": 0, "writes": [
                                       {"fd": 1, "hex": ("probe%d-out\n" % ci).encode().hex()},
                                       {"fd": 2, "hex": ("probe%d-err\n" % ci).encode().hex()}]}}],
                      "probe": True})
    if cfg.get("builtins"):
        # learn what the two builtins print when they are not redirected
        lines = [{"stages": [{"kind": "builtin", "text": "alias zz='true'"}], "probe": False, "learn": "define"},
                 {"stages": [{"kind": "builtin", "text": "alias"}], "probe": False, "learn": "out"},
                 {"stages": [{"kind": "builtin", "text": "cd /nonexistent_zz"}], "probe": False, "learn": "err"}] + lines
    sc = {"prop": "C04", "lines": lines, "externals": [], "faults": {}, "files": fw.to_json()}
    if cfg.get("open_fault") and rng.chance(60):
        sc["faults"] = {"open": [1 + rng.below(3), int(rng.choice([28, 24, 5, 30]))]}
    return plines.LineRunner.rebuild(sc)


class C04Runner(LineRunner):
    prop = "C04"

    def prepare_files(self):
        LineRunner.prepare_files(self)
        self.learned = {}
        self.learn_pos = {}

    def on_hello(self, st):
        line = self.sc["lines"][st.line_no]
        cls = "leak_to_later_command" if line.get("probe") else "fd_target_mismatch"
        self.check_wiring(st, cls)
        extra = sorted(fd for fd in st.pup.fds if fd > 2)
        if extra and not line.get("probe"):
            raise Violation("fd_target_mismatch", "%s was started with descriptors beyond the named ones: %s (%s)" % (
                st.label(), extra, ", ".join(self.short(st.pup.fds[fd]["link"]) for fd in extra)))
        if st.spec.get("plain_args"):
            argv = st.pup.hello["argv"][2:]
            if argv != st.spec["args"]:
                raise Violation("fd_target_mismatch", "%s: arguments arrived as %r, expected %r (a word with multi-byte "
                                "characters in front of the redirections)" % (st.label(), argv, st.spec["args"]))
            self.sim.probe("multibyte_word_before_redirections")
        glued = [r["glue_arg"] for r in st.spec.get("redirs", []) if r.get("glue_arg")]
        if glued:
            argv = st.pup.hello["argv"][2:]
            if argv[:len(glued)] != glued:
                raise Violation("fd_target_mismatch", "%s: the argument glued to the operator arrived as %r, expected %r" % (
                    st.label(), argv, glued))
            self.sim.probe("argument_glued_to_operator")
        if st.hs is not None:
            self.sim.probe("here_string_reader_started")
        if "shows_read" in line:
            argv = st.pup.hello["argv"][2:]
            want = ([line["shows_read"]] if line["shows_read"] else []) + ["end"]
            if line["shows_read"] is not None and argv != want:
                raise Violation("fd_target_mismatch", "`read` with an input redirection stored %r, the redirected input begins "
                                "with %r" % (argv[:-1], line["shows_read"]))
            self.sim.probe("read_builtin_input_redirection_checked")
        if line.get("probe"):
            extra = sorted(fd for fd in st.pup.fds if fd > 2)
            if extra:
                raise Violation("leak_to_later_command", "the command after a redirected one starts with extra "
                                "descriptors %s (%s)" % (extra, ", ".join(self.short(st.pup.fds[fd]["link"]) for fd in extra)))
            argv = st.pup.hello["argv"]
            prev = self.done_msgs[-1][1] if self.done_msgs else 0
            if len(argv) < 3 or argv[2] != str(prev):
                raise Violation("status_mismatch", "$? expanded to %r after a line that reported %d" % (argv[2:], prev))

    def wire_stage(self, st):
        LineRunner.wire_stage(self, st)
        f = self.sc.get("faults", {}).get("open")
        if f and st.kind == "pup":
            # the k-th open of a redirect target in this child fails by injection
            opens = [r for r in st.spec.get("redirs", []) if r["k"] in ("in", "out")]
            if opens and not getattr(st, "unopenable", None):
                k = f[0]
                order = [r for r in opens if r["k"] == "in"] + [r for r in opens if r["k"] == "out"]
                if k <= len(order):
                    self.diagnostic_may_land_anywhere(st)
                    st.unopenable = order[k - 1]["target"] + " (injected errno %d)" % f[1]
                    st.inject_open = (k, f[1])
                    for o in opens:
                        if o["k"] == "out":
                            self.opaque_paths.add(self.abspath(o["target"]))

    def fork_reply_extra(self, st):
        inj = getattr(st, "inject_open", None)
        if inj:
            self.sim.fault("open_fail_errno_%d" % inj[1])
            return " openfail %d %d" % inj
        return ""

    def check_line_done(self, line, status):
        stages = line["_stages"]
        if len(stages) == 1 and stages[0].kind == "builtin":
            st = stages[0]
            import os
            learn = line.get("learn")
            if learn:
                # an unredirected run: remember what it printed (the shell's stdout/stderr are files)
                for name, key in (("shell.out", "out"), ("shell.err", "err")):
                    p = os.path.join(self.sim.dir, name)
                    data = open(p, "rb").read() if os.path.exists(p) else b""
                    prev = self.learn_pos.get(name, 0)
                    self.learn_pos[name] = len(data)
                    if learn == key:
                        self.learned[key] = data[prev:]
                return
            text = st.spec["text"]
            if "read_value" in line:
                if line["read_value"] is None and status == 0:
                    raise Violation("status_zero_on_unopenable", "`%s` with an unopenable input file reported status 0" % line["text"])
                return
            known = None
            if text == "alias" and self.learned.get("out"):
                known = (1, self.learned["out"])
            elif text.startswith("cd /nonexistent") and self.learned.get("err"):
                known = (2, self.learned["err"])
            if known is None:
                # what it printed is not modelled, its targets are not judged
                for r in st.spec.get("redirs", []):
                    if r["k"] == "out":
                        self.opaque_paths.add(self.abspath(r["target"]))
            else:
                # the builtin ran inside the shell: same left-to-right model as for a program
                self.wire_stage(st)
                outp = os.path.join(self.sim.dir, "shell.out" if known[0] == 1 else "shell.err")
                data = open(outp, "rb").read() if os.path.exists(outp) else b""
                grown = data[self.learn_pos.get(os.path.basename(outp), 0):]
                for name in ("shell.out", "shell.err"):
                    pp = os.path.join(self.sim.dir, name)
                    self.learn_pos[name] = os.path.getsize(pp) if os.path.exists(pp) else 0
                if getattr(st, "unopenable", None):
                    if status == 0:
                        raise Violation("status_zero_on_unopenable", "builtin `%s` whose target %s cannot be opened reported "
                                        "status 0" % (text, st.unopenable))
                    if known[0] == 1 and known[1] in grown:
                        raise Violation("ran_despite_unopenable", "builtin `%s` ran (its output went to the shell's stdout) "
                                        "although its target %s cannot be opened" % (text, st.unopenable))
                    self.sim.probe("builtin_with_unopenable_target_not_run")
                else:
                    self.model_write(st, known[1], known[0])
                    self.sim.probe("builtin_output_checked_against_redirection_model")
                self.check_files()
            self.sim.probe("builtin_redirected_inside_shell_process")
            return
        last = stages[-1]
        if getattr(last, "unopenable", None):
            for st in stages:
                if st.pid is not None and not st.gone:
                    raise Violation("deadlock", "line finished while %s is alive" % st.label())
            if status == 0:
                raise Violation("status_zero_on_unopenable", "command whose target %s cannot be opened reported status 0" % (
                    last.unopenable))
            self.sim.probe("unopenable_target_status_nonzero")
            line["_want_status"] = None
            return
        if any(getattr(s, "unopenable", None) for s in stages):
            self.sim.probe("unopenable_target_on_inner_stage")
        c02.C02Runner.check_line_done(self, line, status)
        self.check_files()

    def on_finish(self, exit_status):
        if self.cur is not None:
            raise Violation("shell_died", "the shell exited with status %d while line %d (%s) was running" % (
                exit_status, self.line_no, self.cur["text"][:60]))
        self.check_files()


CONFIGS = {
    "plain": ({"max_cmds": 3, "bad": False, "hs_sizes": (0, 1, 5, 100)}, 26),
    "bad_targets": ({"max_cmds": 3, "bad": True, "hs_sizes": (0, 1, 5, 100)}, 21),
    # fault: the shell is stopped and continued while it is blocked feeding a here-string (the interrupted
    # write returns a partial count)
    "stalled_shell": ({"max_cmds": 2, "bad": False, "hs_sizes": (65536, 70000, 150000), "stall": True}, 6),
    "big_here_strings": ({"max_cmds": 2, "bad": False, "hs_sizes": (100, 65536, 70000, 150000)}, 15),
    "builtins": ({"max_cmds": 3, "bad": False, "builtins": True, "hs_sizes": (0, 5)}, 10),
    "open_faults": ({"max_cmds": 2, "bad": False, "open_fault": True, "hs_sizes": (0, 5)}, 12),
    "substitutions": ({"max_cmds": 3, "bad": False, "substitutions": True, "hs_sizes": (0, 5)}, 10),
}

TIERS = {"quick": 2400, "thorough": 40000}


def make_case(seed, index):
    rng = Rng(seed, index)
    r = rng.below(100)
    acc = 0
    name = "plain"
    for k, (cfg, share) in CONFIGS.items():
        acc += share
        if r < acc:
            name = k
            break
    sc = gen_scenario(rng, CONFIGS[name][0])
    sc["config"] = name
    if CONFIGS[name][0].get("stall"):
        sc["stall_shell"] = True
        sc["stall_until_idle"] = rng.chance(50)
    sc["adversarial_picks"] = rng.choice([0, 5, 20, 60, 150, 400])
    return sc, rng


def signature(v):
    preds = set()
    sc = v["scenario"]
    for l in sc.get("lines", []):
        for st in l.get("stages", []):
            for r in st.get("redirs", []):
                if r["k"] == "hs":
                    preds.add("here_string")
                    if r.get("size", 0) > 65536:
                        preds.add("here_string_larger_than_pipe")
                    if len(l["stages"]) > 1:
                        preds.add("here_string_in_pipeline")
                if r["k"] == "dup":
                    preds.add("dup_redirect")
            if st.get("kind") == "builtin":
                preds.add("builtin")
        for i, st in enumerate(l.get("stages", [])):
            # (word + newline exceed one pipe buffer from 65536 bytes on)
            if i < len(l["stages"]) - 1 and any(r["k"] == "hs" and r.get("size", 0) >= 65536 for r in st.get("redirs", [])):
                preds.add("here_string_over_64k_before_a_later_stage")
    if "shell blocked in write" in v["violation"].get("detail", ""):
        preds.add("shell_blocked_in_write")
    return preds


def hs_word(size):
    return "".join("abcdefghij0123456789"[(i * 7 + size) % 20] for i in range(size)) if size else '""'


def explicit_cases():
    """targeted shapes: here-strings of every size class in every pipeline position, with a
    reader that copies, ignores or partly reads it"""
    out = []
    probe = {"stages": [{"kind": "pup", "name": "prb0", "text": "pup prb0", "args": ["$?"],
                         "role": {"t": "io", "read": "none", "code": 0, "writes": []}}], "probe": True}
    readers = {
        "copy": {"t": "filter", "code": 0, "rchunk": 65536, "on_epipe": "exit"},
        "all": {"t": "io", "read": "all", "writes": [{"fd": 1, "hex": b"done\n".hex()}], "code": 0, "rchunk": 65536},
        "none": {"t": "io", "read": "none", "writes": [], "code": 0},
        "part": {"t": "io", "read": 10, "writes": [], "code": 3},
    }
    sink = {"t": "sink", "code": 0, "rchunk": 65536}
    src = {"t": "io", "read": "none", "writes": [{"fd": 1, "hex": b"upstream\n".hex()}], "code": 0}
    for size in (0, 5, 65535, 65536, 70000, 140000, 200000):
        for rk, role in readers.items():
            for pos in ("only", "first", "last"):
                if rk == "copy" and pos in ("only", "last"):
                    continue
                hs = {"k": "hs", "word": hs_word(size), "size": size}
                st = {"kind": "pup", "name": "h", "text": "pup h", "role": dict(role), "redirs": [hs]}
                if pos == "only":
                    stages = [st]
                elif pos == "first":
                    stages = [st, {"kind": "pup", "name": "d", "text": "pup d", "role": dict(sink), "redirs": []}]
                else:
                    stages = [{"kind": "pup", "name": "u", "text": "pup u", "role": dict(src), "redirs": []}, st]
                sc = {"prop": "C04", "lines": [{"stages": stages, "probe": False}, dict(probe)], "externals": [],
                      "faults": {}, "files": {"in0": "input zero\n", "in1": "x"}, "config": "explicit",
                      "adversarial_picks": 40}
                out.append(plines.LineRunner.rebuild(sc))
    # in-process builtins with a dup form next to a file target, in both orders
    def out_r(fd, target):
        return {"k": "out", "fd": fd, "append": False, "target": target, "spaced": True, "explicit1": False}
    def app_r(fd, target):
        return dict(out_r(fd, target), append=True)
    dup21 = {"k": "dup", "from": 2, "to": 1}
    dup12 = {"k": "dup", "from": 1, "to": 2, "explicit1": True}
    learn = [{"stages": [{"kind": "builtin", "text": "alias zz='true'"}], "probe": False, "learn": "define"},
             {"stages": [{"kind": "builtin", "text": "alias"}], "probe": False, "learn": "out"},
             {"stages": [{"kind": "builtin", "text": "cd /nonexistent_zz"}], "probe": False, "learn": "err"}]
    for text, redirs in (("alias", [dup12, out_r(2, "f1")]), ("alias", [out_r(2, "f1"), dup12]),
                         ("alias", [out_r(1, "f1"), dup21]), ("alias", [dup21, out_r(1, "f1")]),
                         ("cd /nonexistent_zz", [dup21, out_r(1, "f2")]), ("cd /nonexistent_zz", [out_r(1, "f2"), dup21]),
                         ("cd /nonexistent_zz", [out_r(2, "f2"), dup12]), ("cd /nonexistent_zz", [dup12, out_r(2, "f2")]),
                         # an unopenable target after a dup form, and after a good target
                         ("alias", [dup21, out_r(1, "nodir/x")]), ("alias", [dup12, out_r(2, "d0")]),
                         ("alias", [out_r(1, "f1"), dup21, out_r(2, "nodir/y")]),
                         ("cd /nonexistent_zz", [dup21, out_r(2, "f0/x")]),
                         # the same stream twice, the second time as a dup form (the file target is superseded,
                         # truncated or kept as it is for an append, and must not receive the output), and a dup
                         # form whose source was opened for append (round 7)
                         ("alias", [out_r(1, "f1"), dup12]), ("alias", [app_r(2, "f1"), dup12]),
                         ("alias", [app_r(1, "f1"), dup12]),
                         ("cd /nonexistent_zz", [out_r(2, "f2"), dup21]), ("cd /nonexistent_zz", [app_r(1, "f2"), dup21]),
                         ("cd /nonexistent_zz", [app_r(2, "f2"), dup21])):
        sc = {"prop": "C04", "lines": [dict(l) for l in learn] + [
            {"stages": [{"kind": "builtin", "text": text, "redirs": [dict(r) for r in redirs]}], "probe": False}, dict(probe)],
            "externals": [], "faults": {}, "files": {"in0": "input zero\n", "in1": "x", "f1": "old-f1", "f2": "old-f2"},
            "config": "explicit_builtin", "adversarial_picks": 0}
        out.append(plines.LineRunner.rebuild(sc))
    # an argument glued to the operator (`ls -1>out`): the argument stays an argument
    for gi, (arg, app, spaced) in enumerate((("-1", False, False), ("-2", True, True), ("+1", False, False), ("x9", True, False))):
        r = {"k": "out", "fd": 1, "append": app, "target": "f%d" % (gi % 4), "spaced": spaced, "explicit1": False, "glue_arg": arg}
        role = {"t": "io", "read": "none", "code": 0, "writes": [{"fd": 1, "hex": ("glued%d\n" % gi).encode().hex()}]}
        sc = {"prop": "C04", "lines": [{"stages": [{"kind": "pup", "name": "g%d" % gi, "text": "pup g%d" % gi, "role": role,
                                                    "redirs": [r]}], "probe": False}, dict(probe)],
              "externals": [], "faults": {}, "files": {"in0": "input zero\n", "in1": "x", "f1": "old-f1"},
              "config": "explicit_glued", "adversarial_picks": 0}
        out.append(plines.LineRunner.rebuild(sc))
    return out


def run(args):
    return pbatch.run_check(
        prop="C04", args=args, runner=C04Runner, make_case=make_case, runs=TIERS[args["tier"]],
        extra_cases=explicit_cases(),
        rule="one evaluation = one simulated script run of 1..3 commands (pipelines of 1..3 puppets, up to 4 "
             "redirections each from {>,>>,1>,2>,2>>,2>&1,1>&2,>&2,<,<<<}, attached and spaced, targets absent / "
             "present with content / unopenable, here-strings 0 B .. 150 kB) each followed by a probe command; "
             "reader progress vs. the parent's here-string write, open() failures (file system and injected) "
             "and every puppet step are scheduler decisions; distinct = distinct canonical event-log hashes "
             "among runs with at least one redirection executed",
        nontrivial=lambda sc, res: any(st.get("redirs") for l in sc["lines"] for st in l["stages"]) and res["steps"] >= 3,
        signature=signature,
        components={
            "real": ["cicada binary: tokenizer, tokens_to_redirections, Command::from_tokens, core.rs child-side dup/open, "
                     "here-string feeding by the parent, builtins/utils.rs redirection of in-process builtins",
                     "Linux kernel: files, pipes, O_APPEND, descriptors"],
            "stub": ["external programs are puppets that report their descriptor table before doing anything",
                     "blocking waitpid executed as park + WNOHANG"],
        },
        assumptions=[
            "the reference model applies redirections left to right; for `<` mixed with output targets the "
            "creation/truncation order is not judged",
            "output printed by in-process builtins is not modelled (their targets are not judged, the shell's own "
            "descriptors afterwards are)",
            "attached `<file` spellings are not sampled (only `< file` and `<<< word`)",
        ],
    )
