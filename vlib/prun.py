"""Script-mode runner for engine P: drives one cicada process through a
generated script whose external commands are puppets, with a stream model per
pipe and a scheduler decision at every point where more than one actor can move.

Used by the C02, C04, C08 and C11 checks (they differ in the generated lines,
the fault plan and the oracles switched on)."""
import os
import signal

from psim import (PIPE_CAP, HarnessError, Sim, Violation, crc, fd_snapshot, pipe_blocked_state, pipe_ino, proc_fields, proc_state,
                  stream_bytes)

POLLIN, POLLOUT, POLLERR, POLLHUP, POLLNVAL = 1, 4, 8, 16, 32
R_READY = POLLIN | POLLHUP | POLLERR | POLLNVAL
W_READY = POLLOUT | POLLERR | POLLHUP | POLLNVAL

STOP_SIGS = (signal.SIGSTOP, signal.SIGTSTP)


class Pipe:
    """expected content in flight through one pipe, and who legitimately holds its ends"""

    def __init__(self, label, writers=(), readers=()):
        self.label = label
        self.fifo = bytearray()
        self.opaque = False       # a non-puppet writer: content not modelled
        self.writers = set(writers)   # ("stage", idx) before the fork, (label, fd) afterwards
        self.readers = set(readers)
        self.ino = None
        self.total = 0

    @property
    def writer_open(self):
        return bool(self.writers)

    @property
    def reader_open(self):
        return bool(self.readers)

    def drop(self, label, fd=None):
        for grp in (self.writers, self.readers):
            for t in list(grp):
                if t[0] == label and (fd is None or t[1] == fd):
                    grp.discard(t)


class OFD:
    """an open file description on a regular file of the file model"""

    def __init__(self, path, append):
        self.path = path
        self.append = append
        self.off = 0


class Std:
    """one of the shell's own descriptors 0/1/2"""

    def __init__(self, fd):
        self.fd = fd


class Group:
    """one pipeline: the line's own, or the inner pipeline of a command substitution"""

    def __init__(self, line_no, gi, capture, bg):
        self.line_no = line_no
        self.gi = gi
        self.capture = capture
        self.bg = bg
        self.stages = []
        self.pipes = []
        self.fully_forked = False
        self.launched = False      # the shell has forked every stage and released its pipe ends
        self.forks_failed = 0
        self.pipe_failed = False
        self.cap_out = None
        self.cap_err = None
        self.pipe_calls = 0
        self.forkable = []         # stages that are created by fork (not in-process builtins)

    def base_pipes(self):
        """pipe() calls made up front: the stage pipes, then the two capture pipes"""
        # (a single builtin runs inside the shell and fills the result directly: no capture pipes)
        in_process = len(self.stages) == 1 and getattr(self.stages[0], "in_process", False)
        return max(0, len(self.stages) - 1) + (2 if self.capture and not in_process else 0)

    def complete(self):
        if self.pipe_failed:
            return True
        if self.forkable:
            return all(st.pid is not None or getattr(st, "fork_failed", False) for st in self.forkable)
        return self.pipe_calls >= self.base_pipes()


class Stage:
    def __init__(self, spec, line_no, idx, n):
        self.spec = spec
        self.kind = spec["kind"]          # pup | builtin | notfound | noexec
        self.name = spec.get("name", "")
        self.role = dict(spec.get("role") or {})
        self.line_no = line_no
        self.idx = idx
        self.n = n
        self.pid = None
        self.pup = None
        self.started = 0
        self.term = None                  # ("exit", code) | ("sig", n) as reported by waitpid
        self.gone = False                 # zombie or reaped (ground truth from /proc)
        self.stopped = False
        self.inp = None                   # Pipe feeding fd 0 (or None)
        self.out = None                   # Pipe fed by fd 1 (or None)
        # role progress
        self.written = 0
        self.read_total = 0
        self.eof = False
        self.out_closed = False
        self.in_closed = False
        self.buf = bytearray()            # model of the puppet's forward buffer
        self.finished_role = False
        self.epipe = False
        self.group = None
        self.objs = {}                    # fd -> Pipe | OFD | Std as the program should see them
        self.wi = 0                       # talker: index of the next write
        self.woff = 0                     # talker: bytes of that write already done
        self.hs = None                    # here-string pipe
        self.wired = False

    def label(self):
        if self.group is not None and self.group.capture:
            return "L%d.c%d.s%d" % (self.line_no, self.group.gi, self.idx)
        return "L%d.s%d" % (self.line_no, self.idx)


class Runner:
    """Runs scenario["lines"]; subclasses override the on_* hooks."""

    prop = "Cxx"

    def __init__(self, scenario, sched, keep_log=True):
        self.sc = scenario
        self.sim = Sim(sched, keep_log)
        self.sched = sched
        self.stages = {}       # pid -> Stage
        self.cur = None        # current line state
        self.line_no = -1
        self.wait_dirty = False
        self.in_wait = False
        self.pipe_calls = 0
        self.fork_calls = 0
        self.drain_rr = 0
        self.done_msgs = []
        self.externals_done = set()
        self.result = {}
        self.files = {}        # file model: absolute path -> bytearray
        self.shell_fds1 = None

    # ---------------------------------------------------------------- shrinking support
    @classmethod
    def rebuild(cls, sc):
        for l in sc["lines"]:
            if not l.get("probe"):
                l["text"] = " | ".join(s["text"] for s in l["stages"]) + (" &" if l.get("bg") else "")
        return sc

    @classmethod
    def reductions(cls, sc):
        """simpler variants of a scenario, most drastic first"""
        import copy
        lines = sc["lines"]
        if sc.get("externals"):
            c = copy.deepcopy(sc)
            c["externals"] = []
            yield c
            for i in range(len(sc["externals"])):
                c = copy.deepcopy(sc)
                del c["externals"][i]
                yield c
        if sc.get("faults"):
            c = copy.deepcopy(sc)
            c["faults"] = {}
            yield c
        # drop whole lines (a pipeline together with its probe line)
        groups = []
        i = 0
        while i < len(lines):
            j = i + 1
            while j < len(lines) and lines[j].get("probe"):
                j += 1
            groups.append((i, j))
            i = j
        if len(groups) > 1:
            for (a, b) in reversed(groups):
                c = copy.deepcopy(sc)
                del c["lines"][a:b]
                shift = b - a
                ext = []
                for x in c.get("externals", []):
                    if a <= x["line"] < b:
                        continue
                    if x["line"] >= b:
                        x = dict(x, line=x["line"] - shift)
                    ext.append(x)
                c["externals"] = ext
                yield cls.rebuild(c)
        for (a, b) in groups:
            for k in range(a, b):
                if lines[k].get("probe") and b - a > 1:
                    c = copy.deepcopy(sc)
                    del c["lines"][k]
                    c["externals"] = [dict(x, line=x["line"] - 1) if x["line"] > k else x
                                      for x in c.get("externals", []) if x["line"] != k]
                    yield cls.rebuild(c)
        # drop single stages
        for li, l in enumerate(lines):
            if l.get("probe") or len(l["stages"]) < 2:
                continue
            for si in range(len(l["stages"])):
                c = copy.deepcopy(sc)
                del c["lines"][li]["stages"][si]
                ext = []
                for x in c.get("externals", []):
                    if x["line"] == li:
                        if x["stage"] == si:
                            continue
                        if x["stage"] > si:
                            x = dict(x, stage=x["stage"] - 1)
                    ext.append(x)
                c["externals"] = ext
                yield cls.rebuild(c)
        # simpler arguments
        for li, l in enumerate(lines):
            for si, st in enumerate(l["stages"]):
                r = st.get("role") or {}
                for key, simple in (("n", 1), ("n", 65537), ("sig", None), ("code", 0), ("k", 0), ("chunk", 65536),
                                    ("rchunk", 65536)):
                    if key in r and r[key] != simple and not (key == "n" and isinstance(simple, int) and r[key] <= simple):
                        c = copy.deepcopy(sc)
                        rr = c["lines"][li]["stages"][si]["role"]
                        if simple is None:
                            del rr[key]
                        else:
                            rr[key] = simple
                        yield cls.rebuild(c)

    # ---------------------------------------------------------------- hooks for subclasses
    def script_text(self):
        raise NotImplementedError

    def on_hello(self, st):
        pass

    def on_line_done(self, line, status):
        pass

    def on_finish(self, exit_status):
        pass

    def expected_children(self, line):
        """stages of a line in fork order"""
        return line["_stages"]

    def pipe_fault(self, k):
        """errno to fail the k-th pipe() of the session with, or None"""
        return None

    def fork_fault(self, k):
        return None

    # ---------------------------------------------------------------- main
    def run(self):
        sim = self.sim
        try:
            script = os.path.join(sim.work, "s.sh")
            with open(script, "w") as f:
                f.write(self.script_text())
            self.prepare_files()
            if self.sc.get("on_pty"):
                # the script runs with a terminal as 0/1/2: run_pipeline takes the tty path
                # (job table, terminal hand-over) for every pipeline
                from ptyrun import PtyShell
                self.pty = PtyShell(sim, env_extra=self.shell_env(), argv=[script])
            elif self.sc.get("dash_c"):
                # one command line given with -c (words may span several lines inside quotes)
                sim.spawn_shell(["-c", self.sc["lines"][0]["text"]], env_extra=self.shell_env())
            else:
                sim.spawn_shell([script], env_extra=self.shell_env())
            ev = sim.shell_event()
            if ev[0] != "msg" or not ev[1].startswith("hello"):
                raise HarnessError("shell did not greet: %r" % (ev,))
            self.shell_fds0 = fd_snapshot(sim.shell_pid)
            sim.shell_go()
            self.loop()
            return self.result
        finally:
            sim.close()

    def shell_env(self):
        if self.sc.get("hostile_env"):
            # an unwritable log file (full disk) and a search path whose first entry does not exist: whatever the shell
            # or a forked child has to say about that must not end up in a pipe or in a captured output
            return {"CICADA_LOG_FILE": "/dev/full", "PATH": "/nonexistent-dir-verif:" + self.sim.bin + ":/usr/bin:/bin"}
        return {}

    def prepare_files(self):
        pass

    def line_groups(self, line):
        if "groups" in line:
            return line["groups"]
        return [{"stages": line["stages"], "capture": False, "bg": bool(line.get("bg"))}]

    def start_line(self):
        self.line_no += 1
        if self.line_no >= len(self.sc["lines"]):
            self.cur = None
            return
        line = self.sc["lines"][self.line_no]
        flat = []
        groups = []
        for gi, g in enumerate(self.line_groups(line)):
            G = Group(self.line_no, gi, bool(g.get("capture")), bool(g.get("bg")))
            n = len(g["stages"])
            single_builtin = n == 1 and g["stages"][0]["kind"] == "builtin"
            G.pipes = [Pipe("L%d.%sp%d" % (self.line_no, "c%d." % gi if G.capture else "", i),
                            [("stage", i)], [("stage", i + 1)]) for i in range(n - 1)]
            if G.capture:
                G.cap_out = Pipe("L%d.c%d.out" % (self.line_no, gi), [("stage", n - 1)], [("shell", 0)])
                G.cap_err = Pipe("L%d.c%d.err" % (self.line_no, gi), [("stage", n - 1)], [("shell", 0)])
            for i, spec in enumerate(g["stages"]):
                st = Stage(spec, self.line_no, i, n)
                st.group = G
                st.inp = G.pipes[i - 1] if i > 0 else None
                st.out = G.pipes[i] if i < n - 1 else None
                if st.kind != "pup" and st.out is not None:
                    st.out.opaque = True
                st.in_process = single_builtin
                G.stages.append(st)
                if not single_builtin:
                    flat.append(st)
                    G.forkable.append(st)
            groups.append(G)
        line["_groups"] = groups
        line["_outer"] = groups[-1]
        line["_stages"] = groups[-1].stages
        line["_fork_order"] = flat
        line["_next_fork"] = 0
        line["_launched"] = False
        line["_forks_failed"] = 0
        self.cur = line
        self.in_wait = False
        self.sim.ev("line", self.line_no, line["text"])

    def mark_launched(self):
        """called whenever the shell shows up again: groups whose last stage has been forked are now launched"""
        line = self.cur
        if line is None:
            return
        for G in line["_groups"]:
            if G.fully_forked and not G.launched:
                G.launched = True
                if G is line["_outer"]:
                    line["_launched"] = True

    def loop(self):
        sim = self.sim
        self.start_line()
        guard = 0
        while True:
            guard += 1
            if guard > 200000:
                raise HarnessError("runner loop does not terminate")
            ev = sim.shell_event()
            kind = ev[0]
            if not (kind == "blocked" and ev[1] == "write"):
                # (blocked writing a here-string: the parent has not released the stage's pipe ends yet)
                self.mark_launched()
            if kind == "dead":
                self.shell_died(ev[1])
                return
            if kind == "blocked":
                self.decide(shell_blocked=ev)
                continue
            msg = ev[1]
            w = msg.split()
            if self.shell_fds1 is None:
                # the descriptor table while the script runs (the script file itself is open by now)
                self.shell_fds1 = fd_snapshot(sim.shell_pid)
            if w[0] == "pipe?":
                self.pipe_calls += 1
                G = self.current_group()
                if G is not None:
                    G.pipe_calls += 1
                e = self.pipe_fault(self.pipe_calls)
                if e:
                    sim.fault("pipe_fail")
                    sim.ev("pipe() fails", e)
                    if G is not None:
                        self.pipe_failed_in(G)
                    sim.shell_go("fail %d" % e)
                else:
                    sim.shell_go()
            elif w[0] == "fork?":
                # a decision point: earlier stages may run before the next one exists
                if self.decide(shell_at="fork?"):
                    self.fork_calls += 1
                    e = self.fork_fault(self.fork_calls)
                    if e:
                        sim.fault("fork_fail")
                        sim.ev("fork() fails", e)
                        self.note_fork_failed()
                        sim.shell_go("fail %d" % e)
                    else:
                        extra = ""
                        nxt = self.next_stage()
                        if nxt is not None and not nxt.wired:
                            self.wire_stage(nxt)
                            self.attach(nxt)
                            nxt.wired = True
                            extra = self.fork_reply_extra(nxt)
                        self.armed_open = bool(extra)
                        sim.shell_go("go" + extra)
            elif w[0] == "fork=":
                self.child_forked(int(w[1]))
                if getattr(self, "armed_open", False):
                    # the plan was for the child only
                    self.armed_open = False
                    sim.shell_go("go openfail 0 0")
                else:
                    sim.shell_go()
            elif w[0] == "fork!":
                sim.shell_go()
            elif w[0] == "wait?":
                self.in_wait = True
                if self.decide(shell_at="wait?"):
                    sim.shell_go()
            elif w[0] == "wait=":
                self.wait_result(w[1], int(w[2]), int(w[3]))
                sim.shell_go()
            elif w[0] == "done":
                status = int(w[1])
                text = bytes.fromhex(w[2]).decode(errors="replace") if len(w) > 2 else ""
                self.pipeline_done(status, text)
                sim.shell_go()
            elif w[0] == "now?":
                sim.clock_reads += 1
                sim.clock += 0.001
                sim.shell_go("t %.6f" % sim.clock)
            else:
                raise HarnessError("unexpected shell message %r" % msg)

    # ---------------------------------------------------------------- children
    def next_stage(self):
        line = self.cur
        if line is None:
            return None
        i = line["_next_fork"]
        order = line["_fork_order"]
        return order[i] if i < len(order) else None

    def fork_reply_extra(self, st):
        return ""

    def current_group(self):
        line = self.cur
        if line is None:
            return None
        for G in line["_groups"]:
            if not G.complete():
                return G
        return line["_outer"]

    def pipe_failed_in(self, G):
        """an injected pipe() failure: either the whole pipeline is given up (stage or
        capture pipes) or only the stage whose here-string pipe it was"""
        line = self.cur
        if G.pipe_calls <= G.base_pipes():
            G.pipe_failed = True
            G.fully_forked = True
            for st in G.stages:
                if st.pid is None:
                    st.gone = True
                    st.fork_failed = True
                    self.stage_ended_io(st)
            order = line["_fork_order"]
            while line["_next_fork"] < len(order) and order[line["_next_fork"]].group is G:
                line["_next_fork"] += 1
            if G is line["_outer"]:
                line["_pipe_failed"] = True
        else:
            self.note_fork_failed()

    def note_fork_failed(self):
        line = self.cur
        if line is None:
            return
        i = line["_next_fork"]
        order = line["_fork_order"]
        if i < len(order):
            st = order[i]
            st.gone = True
            st.fork_failed = True
            self.stage_ended_io(st)
            line["_next_fork"] = i + 1
            st.group.forks_failed += 1
            if st.group is line["_outer"]:
                line["_forks_failed"] += 1
            if st is st.group.stages[-1]:
                st.group.fully_forked = True

    def child_forked(self, pid):
        sim = self.sim
        line = self.cur
        if line is None:
            raise Violation("stage_started_twice", "a child was forked after the last line finished")
        i = line["_next_fork"]
        exp = line["_fork_order"]
        if i >= len(exp):
            raise Violation("stage_started_twice", "line %d forked more children than it has stages" % self.line_no)
        st = exp[i]
        line["_next_fork"] = i + 1
        if st is st.group.stages[-1]:
            st.group.fully_forked = True
        if not st.wired:
            self.wire_stage(st)
            self.attach(st)
            st.wired = True
        st.pid = pid
        st.started += 1
        self.stages[pid] = st
        sim.names[pid] = st.label()
        sim.ev("fork", st.label(), st.kind)
        r = sim.resolve_child(pid)
        if r[0] == "hello":
            pup = r[1]
            st.pup = pup
            sim.children[pid] = {"kind": "puppet"}
            if (st.kind != "pup" or pup.name != st.name) and getattr(self, "relaxed", False):
                # under real descriptor exhaustion a pipeline may have been given up without the
                # harness being told: find the stage this program belongs to
                order = line["_fork_order"]
                for j in range(i + 1, len(order)):
                    if order[j].kind == "pup" and order[j].name == pup.name:
                        for k in range(i, j):
                            sk = order[k]
                            sk.gone = True
                            sk.fork_failed = True
                            sk.pid = None
                            sk.started = 0
                            sk.group.pipe_failed = True
                            self.stage_ended_io(sk)
                        self.stages.pop(pid, None)
                        st = order[j]
                        line["_next_fork"] = j + 1
                        if st is st.group.stages[-1]:
                            st.group.fully_forked = True
                        if not st.wired:
                            self.wire_stage(st)
                            self.attach(st)
                            st.wired = True
                        st.pid = pid
                        st.started += 1
                        self.stages[pid] = st
                        sim.names[pid] = st.label()
                        sim.ev("resync", st.label())
                        break
            st.pup = pup
            if st.kind != "pup":
                raise Violation("stage_started_twice", "%s (%s) executed a puppet" % (st.label(), st.kind))
            if pup.name != st.name:
                raise Violation("wiring_mismatch", "%s started as %r, expected %r" % (st.label(), pup.name, st.name))
            sim.ev("hello", st.label())
            self.check_signals(st)
            self.on_hello(st)
        elif r[0] in ("zombie", "gone"):
            sim.children[pid] = {"kind": "dead"}
            st.gone = True
            self.wait_dirty = True
            sim.ev("child-exited-at-once", st.label())
            if st.kind == "pup":
                self.pup_did_not_start(st)
            self.stage_ended_io(st)
        elif r[0] == "blocked":
            sim.children[pid] = {"kind": "free"}
            sim.ev("child-blocked", st.label(), r[1])
            if st.kind == "pup":
                self.pup_did_not_start(st)
        else:
            sim.children[pid] = {"kind": "free"}
            sim.ev("child-" + r[0], st.label())

    def pup_did_not_start(self, st):
        raise Violation("stage_not_started", "%s never executed its program" % st.label())

    def check_signals(self, st):
        """a started program has the default disposition for the signals a pipeline relies on
        (an ignored SIGPIPE would keep an upstream writer alive for ever) and none of them blocked"""
        sig = st.pup.hello.get("sig", {})
        for num, name in (("13", "SIGPIPE"), ("2", "SIGINT"), ("15", "SIGTERM"), ("20", "SIGTSTP"), ("3", "SIGQUIT")):
            if sig.get(num) not in (None, "dfl"):
                raise Violation("signal_disposition", "%s was started with %s %s" % (
                    st.label(), name, {"ign": "ignored", "handler": "handled"}.get(sig.get(num), sig.get(num))))
        blocked = [b for b in sig.get("blocked", []) if b in (2, 13, 15, 17, 20)]
        if blocked:
            raise Violation("signal_disposition", "%s was started with signals %s blocked" % (st.label(), blocked))

    def wire_stage(self, st):
        """what descriptors 0/1/2 of the stage should be (subclasses add redirections)"""
        G = st.group
        st.objs[0] = st.inp if st.inp is not None else Std(0)
        if st.out is not None:
            st.objs[1] = st.out
        elif G.capture:
            st.objs[1] = G.cap_out
            st.out = G.cap_out
        else:
            st.objs[1] = Std(1)
        st.objs[2] = G.cap_err if (G.capture and st.idx == st.n - 1) else Std(2)

    def group_pipes(self, G):
        out = list(G.pipes)
        if G.cap_out is not None:
            out += [G.cap_out, G.cap_err]
        return out

    def attach(self, st):
        """the stage exists now: it holds exactly the pipe ends its descriptors 0/1/2 refer to"""
        for p in self.group_pipes(st.group):
            p.drop("stage", st.idx)
        for fd, obj in st.objs.items():
            if isinstance(obj, Pipe):
                if fd == 0:
                    obj.readers.add((st.label(), 0))
                else:
                    obj.writers.add((st.label(), fd))

    def stage_ended_io(self, st):
        """the process is gone (or was never created): none of its pipe ends is held any more"""
        for p in self.group_pipes(st.group):
            p.drop("stage", st.idx)
            p.drop(st.label())
        if st.hs is not None:
            st.hs.drop(st.label())

    def refresh_free_children(self):
        if self.sim.settle_free_children():
            self.wait_dirty = True
        for pid, c in self.sim.children.items():
            st = self.stages.get(pid)
            if st is not None and c["kind"] == "dead" and not st.gone:
                st.gone = True
                self.stage_ended_io(st)
                self.sim.ev("free-child-ended", st.label())

    # ---------------------------------------------------------------- wait results
    def wait_result(self, kind, pid, val):
        sim = self.sim
        st = self.stages.get(pid)
        if kind == "alive":
            self.wait_dirty = False
            return
        name = st.label() if st else "?"
        sim.ev("wait=", kind, name, val if kind in ("exited", "signaled") else "")
        if kind == "err":
            return
        if st is None:
            return
        if kind == "continued":
            st.cont_pending = False
        if kind == "exited":
            st.term = ("exit", val)
        elif kind == "signaled":
            st.term = ("sig", val)
        if kind in ("exited", "signaled"):
            st.kill_pending = False
            st.gone = True
            st.reaped = True
            self.stage_ended_io(st)

    # ---------------------------------------------------------------- line completion
    def pipeline_done(self, status, text):
        sim = self.sim
        line = self.cur
        sim.ev("done", status)
        self.done_msgs.append((self.line_no, status, text))
        if line is None:
            raise Violation("stage_started_twice", "a pipeline finished after the last line")
        line["_dones_seen"] = line.get("_dones_seen", 0) + 1
        if line["_dones_seen"] < line.get("dones", 1):
            return
        self.check_line_done(line, status)
        self.on_line_done(line, status)
        self.start_line()

    def check_line_done(self, line, status):
        pass

    def shell_died(self, status):
        self.sim.ev("shell-exit", status)
        self.on_finish(status)

    # ---------------------------------------------------------------- the scheduler
    def role_steps(self, st, pr):
        """enabled micro-steps of a live puppet stage; pr = (r0, r1, r2, buflen)"""
        r = st.role
        t = r.get("t", "ignorer")
        r0, r1 = pr[0], pr[1]
        if self.sc.get("on_pty"):
            # writability of the terminal depends on how fast its master side is drained, which is not a
            # scheduled event: a write there is always enabled (and always completes, see to_tty)
            pr = list(pr)
            if isinstance(st.objs.get(1), Std):
                r1 = pr[1] = W_READY
            if isinstance(st.objs.get(2), Std):
                pr[2] = W_READY
        steps = []
        if st.stopped:
            return steps
        if t == "source":
            if st.out_closed or st.epipe:
                steps.append("exit")
            elif st.written < r["n"]:
                if r1 & W_READY:
                    steps.append("write")
            else:
                steps.append("close_out")
        elif t == "sink":
            if st.eof:
                steps.append("exit")
            elif r0 & R_READY:
                steps.append("read")
        elif t == "filter":
            if st.epipe:
                steps.append("exit")
            elif len(st.buf) > 0:
                if r1 & W_READY:
                    steps.append("fwd")
            elif not st.eof:
                if r0 & R_READY:
                    steps.append("readk")
            elif not st.out_closed:
                steps.append("close_out")
            else:
                steps.append("exit")
        elif t == "early":
            if st.eof or st.read_total >= r.get("k", 0):
                steps.append("exit")
            elif r0 & R_READY:
                steps.append("read")
        elif t == "io":
            # read (all | none | k bytes), then perform the writes, then exit
            want = r.get("read", "none")
            reading = (want == "all" and not st.eof) or (isinstance(want, int) and st.read_total < want and not st.eof)
            ws = r.get("writes", [])
            if reading:
                if r0 & R_READY:
                    steps.append("read")
            elif st.epipe or st.wi >= len(ws):
                steps.append("exit")
            else:
                fd = ws[st.wi]["fd"]
                rr = pr[1] if fd == 1 else pr[2]
                if ws[st.wi].get("close"):
                    steps.append("tclose")
                elif rr & W_READY:
                    steps.append("twrite")
        elif t == "talker":
            ws = r.get("writes", [])
            if st.epipe or st.wi >= len(ws):
                steps.append("exit")
            else:
                fd = ws[st.wi]["fd"]
                rr = pr[1] if fd == 1 else pr[2]
                if ws[st.wi].get("close"):
                    steps.append("tclose")
                elif rr & W_READY:
                    steps.append("twrite")
        else:
            steps.append("exit")
        return steps

    def live_puppets(self):
        out = []
        for pid, st in self.stages.items():
            if st.pup is not None and not st.gone and st.pup.alive:
                out.append(st)
        out.sort(key=lambda s: (s.line_no, s.idx))
        return out

    def pending_externals(self):
        out = []
        for i, x in enumerate(self.sc.get("externals", [])):
            if i in self.externals_done:
                continue
            if x["line"] != self.line_no:
                continue
            line = self.cur
            if line is None or x["stage"] >= len(line["_stages"]):
                continue
            st = line["_stages"][x["stage"]]
            if st.pid is None or st.gone:
                continue
            sig = x["sig"]
            if sig == signal.SIGCONT and not st.stopped:
                continue
            if sig in STOP_SIGS:
                others = [o for o in line["_stages"] if o is not st and o.pid is not None and not o.gone]
                if st.stopped or not others or not line.get("_launched"):
                    continue
            if st.stopped and sig not in (signal.SIGCONT, signal.SIGKILL):
                continue
            out.append((i, x, st))
        return out

    def decide(self, shell_at=None, shell_blocked=None):
        """One or more scheduler decisions while the shell is parked (or blocked).
        Returns True when the shell is to be released now."""
        sim = self.sim
        while True:
            if getattr(self, "pty", None) is not None:
                self.pty.drain()     # what the last stage writes to the terminal must not back up
            self.refresh_free_children()
            choices = []
            releasable = False
            if shell_at == "fork?":
                releasable = True
            elif shell_at == "wait?":
                releasable = self.wait_dirty
                if not releasable:
                    self.check_wait_has_a_subject()
            if releasable:
                choices.append(("shell",))
            polls = {}
            for st in self.live_puppets():
                if st.stopped:
                    continue
                rep = st.pup.rpc("poll").split()
                pr = tuple(int(x) for x in rep[1:5])
                polls[st.pid] = pr
                for step in self.role_steps(st, pr):
                    choices.append(("pup", st, step))
            self.check_leaked_ends(polls)
            stopped = [st for st in self.live_puppets() if st.stopped]
            cont_pending = [st for st in self.live_puppets() if getattr(st, "cont_pending", False)]
            # (a member killed while stopped: until the shell has been told, it still counts it as stopped)
            cont_pending += [st for st in self.stages.values() if getattr(st, "kill_pending", False)]
            if stopped or (cont_pending and releasable):
                # while a member is stopped -- or continued without the shell having been told yet --
                # only the shell and the continuation can move, so that "all stages terminated"
                # stays the only legitimate reason for the shell to resume
                choices = [c for c in choices if c[0] == "shell"]
                for st in stopped:
                    choices.append(("cont", st))
                    if self.sc.get("externals"):
                        # a stopped member may also be killed outright: it is then terminated, which is unambiguous
                        choices.append(("killstopped", st))
            else:
                for i, x, st in self.pending_externals():
                    choices.append(("ext", i, x, st))
            if self.sc.get("stall_builtin") and getattr(self, "builtin_stalls_left", 3) > 0:
                # fault: a builtin stage (a forked copy of the shell) that sits blocked writing into a full pipe is
                # stopped and continued at once: its interrupted write returns a partial count
                for pid, c in sim.children.items():
                    if c["kind"] == "free" and proc_state(pid) == "S":
                        b = pipe_blocked_state(pid)
                        if b is not None and b[0] == "write" and b[3]:
                            choices.append(("stallfree", pid))
                            break
            if shell_blocked is not None and self.sc.get("stall_shell"):
                # fault: the shell itself is stalled (SIGSTOP) while it drains a capture pipe or feeds a
                # here-string; its children go on; it is continued later
                if getattr(self, "stalled", False):
                    if not [c for c in choices if c[0] == "pup"]:
                        self.unstall()
                        return False
                    if not self.sc.get("stall_until_idle"):
                        choices.append(("unstall",))
                elif getattr(self, "stalls_left", 2) > 0 and [c for c in choices if c[0] == "pup"]:
                    choices.append(("stall",))
            if not choices:
                self.no_choice(shell_at, shell_blocked)
                return False
            if len(choices) == 1:
                c = choices[0]
            else:
                idx = sim.sched.pick(len(choices))
                if idx is None:
                    c = self.drain_choice(choices)
                else:
                    c = choices[idx]
            sim.steps += 1
            if c[0] == "shell":
                return True
            if c[0] == "pup":
                self.do_step(c[1], c[2])
            elif c[0] == "stall":
                self.stalls_left = getattr(self, "stalls_left", 2) - 1
                os.kill(sim.shell_pid, signal.SIGSTOP)
                sim.wait_state(sim.shell_pid, "T", "stall of the shell")
                self.stalled = True
                sim.fault("shell_stalled")
                sim.ev("shell stalled")
                continue
            elif c[0] == "stallfree":
                self.builtin_stalls_left = getattr(self, "builtin_stalls_left", 3) - 1
                os.kill(c[1], signal.SIGSTOP)
                sim.wait_state(c[1], "TZX", "stall of a builtin stage")
                os.kill(c[1], signal.SIGCONT)
                sim.wait_state(c[1], "RSDZX", "continuation of a builtin stage")
                sim.fault("blocked_builtin_stage_stalled")
                sim.ev("builtin stage stalled", self.stages[c[1]].label() if c[1] in self.stages else "?")
                self.wait_dirty = True
            elif c[0] == "unstall":
                self.unstall()
                return False
            elif c[0] == "cont":
                self.signal_stage(c[1], signal.SIGCONT, "cont")
            elif c[0] == "killstopped":
                c[1].stopped = False
                c[1].kill_pending = True
                self.signal_stage(c[1], signal.SIGKILL, "kill-while-stopped")
                sim.probe("member_killed_while_stopped")
            else:
                self.do_external(c[1], c[2], c[3])
            if shell_blocked is not None and not getattr(self, "stalled", False):
                # the shell may have been woken up by that step
                return False

    def check_wait_has_a_subject(self):
        """the shell sits in a blocking wait with nothing unreported: some process of the current line must still be
        there to wait for -- otherwise only a child of another line (a background job) can end this wait"""
        line = self.cur
        if line is None or line.get("bg") or not line.get("_groups"):
            return
        G = self.current_group()
        if G is None or G.bg:
            return
        subjects = [st for g in line["_groups"] for st in g.stages
                    if st.pid is not None and not getattr(st, "reaped", False) and not getattr(st, "in_process", False)]
        if subjects:
            return
        if any(st.pid is None and not getattr(st, "fork_failed", False) and not getattr(st, "in_process", False)
               and st.kind == "pup" for st in G.stages):
            return      # (stages still to be forked)
        others = [st for st in self.stages.values() if st.line_no != self.line_no and st.pid is not None and not st.gone]
        if not others:
            return      # (no child at all: the wait fails at once)
        self.sim.probe("blocking_wait_checked_for_a_subject")
        raise Violation("deadlock", "the shell sits in a blocking wait although every process of line %d has been "
                        "collected; only %s (another line's) can end it" % (self.line_no, others[0].label()))

    def check_leaked_ends(self, polls):
        """Once the shell has forked every stage of the line it holds no pipe end
        any more: a reader whose writers are all gone must see end-of-file at
        once, a writer whose reader is gone must see the pipe broken at once."""
        line = self.cur
        if line is None:
            return
        for st in self.live_puppets():
            if st.line_no != self.line_no or st.stopped:
                continue
            if not st.group.launched or st.group.forks_failed:
                continue
            pr = polls.get(st.pid)
            if pr is None:
                continue
            t = st.role.get("t")
            p = st.objs.get(0)
            if isinstance(p, Pipe) and not p.opaque and not p.writer_open and len(p.fifo) == 0 and not st.eof \
                    and t in ("sink", "filter", "early") and not (pr[0] & R_READY):
                raise Violation("eof_missing", "%s gets no end-of-file on %s although every writer is gone "
                                               "(some process still holds the write end)" % (st.label(), p.label))
            p = st.objs.get(1)
            if isinstance(p, Pipe) and not p.reader_open and not st.out_closed and t in ("source", "filter") \
                    and not (pr[1] & POLLERR):
                raise Violation("epipe_missing", "%s can still write to %s although its reader is gone "
                                                 "(some process still holds the read end)" % (st.label(), p.label))

    def unstall(self):
        sim = self.sim
        os.kill(sim.shell_pid, signal.SIGCONT)
        sim.wait_state(sim.shell_pid, "RSDZX", "continuation of the shell")
        self.stalled = False
        sim.ev("shell continued")

    def drain_choice(self, choices):
        """cooperative phase: every role is run to completion fairly and the
        shell is released whenever possible; pending external signals are dropped"""
        for c in choices:
            if c[0] in ("cont", "unstall"):
                return c
        choices = [c for c in choices if c[0] not in ("killstopped", "stall")] or choices
        for c in choices:
            if c[0] == "shell":
                return c
        pups = [c for c in choices if c[0] == "pup"]
        if pups:
            self.drain_rr += 1
            return pups[self.drain_rr % len(pups)]
        # only externals left: deliver continues so that nothing stays stopped, drop the rest
        for c in choices:
            if c[0] == "ext" and c[2]["sig"] == signal.SIGCONT:
                return c
        c = choices[0]
        return c

    def no_choice(self, shell_at, shell_blocked):
        """nobody can move"""
        sim = self.sim
        stopped = [st for st in self.live_puppets() if st.stopped]
        if stopped:
            # a stopped member with nobody to continue it: the harness continues it (drain)
            st = stopped[0]
            self.signal_stage(st, signal.SIGCONT, "drain")
            return
        alive = [st.label() for st in self.live_puppets()]
        free = [self.stages[p].label() for p, c in sim.children.items() if c["kind"] == "free" and p in self.stages]
        where = shell_at or ("blocked in %s on %s" % (shell_blocked[1], sim.iname(shell_blocked[3])))
        raise Violation("deadlock", "shell %s; no process can take a step (live puppets: %s; blocked builtins: %s)" % (
            where, ",".join(alive) or "-", ",".join(free) or "-"))

    # ---------------------------------------------------------------- micro-steps
    def peer_is_shell(self, st, fd):
        """the other end of this descriptor is read/written by the (unparked) shell itself"""
        o = st.objs.get(fd)
        if not isinstance(o, Pipe):
            return False
        G = st.group
        return o is st.hs or o is G.cap_out or o is G.cap_err

    def to_tty(self, st, fd):
        """the descriptor is the terminal itself (script running on a pty): whoever drains the
        master side is not an actor, so a write there has to complete"""
        return " all" if (self.sc.get("on_pty") and isinstance(st.objs.get(fd), Std)) else ""

    def do_step(self, st, step):
        sim = self.sim
        pup = st.pup
        r = st.role
        if step in ("write", "twrite", "fwd", "read", "readk"):
            # The shell reads its capture pipes / writes a here-string while the puppet moves. One step
            # moves at most one pipe buffer: starting from the settled state (pipe empty for a capture,
            # full or completely written for a here-string) the outcome then does not depend on how fast
            # the shell drains or refills.
            fd = 0 if step in ("read", "readk") else (r["writes"][st.wi]["fd"] if step == "twrite" else 1)
            if self.peer_is_shell(st, fd):
                r = dict(r)
                r["chunk"] = min(r.get("chunk", 4096), PIPE_CAP)
                r["rchunk"] = min(r.get("rchunk", 4096), PIPE_CAP)
                if step == "fwd" and len(st.buf) > PIPE_CAP:
                    raise HarnessError("forward buffer larger than a pipe buffer towards the shell")
        if step == "write":
            chunk = r.get("chunk", 4096)
            n = min(chunk, r["n"] - st.written)
            rep = pup.rpc("write 1 %d %d %d%s" % (n, r["seed"], st.written, self.to_tty(st, 1))).split()
            if rep[0] == "wrote":
                done = int(rep[1])
                self.model_write(st, stream_bytes(r["seed"], st.written, done))
                st.written += done
                sim.ev("step", st.label(), "write", done, "full" if rep[2] == "1" else "")
                if rep[2] == "1":
                    sim.probe("writer_blocked_on_full_pipe")
            elif rep[0] == "err":
                e, done = int(rep[1]), int(rep[2])
                if done:
                    self.model_write(st, stream_bytes(r["seed"], st.written, done))
                    st.written += done
                sim.ev("step", st.label(), "write-error", e)
                self.write_error(st, e)
            else:
                raise HarnessError("puppet reply %r" % rep)
        elif step == "twrite":
            wspec = r["writes"][st.wi]
            fd = wspec["fd"]
            if "hex" in wspec:
                data = bytes.fromhex(wspec["hex"])
            else:
                data = stream_bytes(wspec["seed"], 0, wspec["n"])
            part = data[st.woff:st.woff + r.get("chunk", 65536)]
            if "hex" in wspec:
                rep = pup.rpc("writehex %d %s%s" % (fd, part.hex(), self.to_tty(st, fd))).split() if part else ["wrote", "0", "0"]
            else:
                rep = pup.rpc("write %d %d %d %d%s" % (fd, len(part), wspec["seed"], st.woff, self.to_tty(st, fd))).split() if part else ["wrote", "0", "0"]
            if rep[0] == "wrote":
                done = int(rep[1])
                self.model_write(st, part[:done], fd)
                st.woff += done
                sim.ev("step", st.label(), "write fd%d" % fd, done, "full" if rep[2] == "1" else "")
                if rep[2] == "1":
                    sim.probe("writer_blocked_on_full_pipe")
                if st.woff >= len(data):
                    st.wi += 1
                    st.woff = 0
            elif rep[0] == "err":
                e, done = int(rep[1]), int(rep[2])
                self.model_write(st, part[:done], fd)
                sim.ev("step", st.label(), "write-error fd%d" % fd, e)
                self.write_error(st, e, fd)
            else:
                raise HarnessError("puppet reply %r" % rep)
        elif step == "fwd":
            rep = pup.rpc("writebuf 1%s" % self.to_tty(st, 1)).split()
            if rep[0] == "wrote":
                done = int(rep[1])
                self.model_write(st, bytes(st.buf[:done]))
                del st.buf[:done]
                o1 = st.objs.get(1)
                sim.ev("step", st.label(), "fwd", "unmodelled" if (isinstance(o1, Pipe) and o1.opaque) else done,
                       "full" if rep[2] == "1" else "")
                if rep[2] == "1":
                    sim.probe("writer_blocked_on_full_pipe")
            elif rep[0] == "err":
                e, done = int(rep[1]), int(rep[2])
                if done:
                    self.model_write(st, bytes(st.buf[:done]))
                    del st.buf[:done]
                sim.ev("step", st.label(), "fwd-error", e)
                self.write_error(st, e)
            else:
                raise HarnessError("puppet reply %r" % rep)
        elif step in ("read", "readk"):
            n = r.get("rchunk", 4096)
            if r.get("t") == "early":
                n = max(1, min(n, r.get("k", 0) - st.read_total))
            if r.get("t") == "io" and isinstance(r.get("read"), int):
                n = max(1, min(n, r["read"] - st.read_total))
            rep = pup.rpc("read 0 %d %d" % (n, 1 if step == "readk" else 0)).split()
            if rep[0] == "data":
                ln = int(rep[1])
                data = self.model_read(st, ln, rep[2])
                st.read_total += ln
                opaque_in = data is None
                if step == "readk":
                    if data is None:
                        # content from a writer that is not modelled: whatever is forwarded is not modelled either
                        data = b"\0" * ln
                        if isinstance(st.objs.get(1), Pipe):
                            st.objs[1].opaque = True
                    st.buf += data
                # (what a builtin printed is not modelled; it may contain pids, so not even its length is logged)
                sim.ev("step", st.label(), "read", "unmodelled" if opaque_in else ln)
            elif rep[0] == "eof":
                self.model_eof(st)
                st.eof = True
                sim.ev("step", st.label(), "eof")
            elif rep[0] == "wouldblock":
                raise HarnessError("read offered although not readable")
            else:
                sim.ev("step", st.label(), "read-error", rep[1] if len(rep) > 1 else "")
                st.eof = True
        elif step == "tclose":
            # a talker closes one of its output descriptors in the middle of its work and goes on
            fd = r["writes"][st.wi]["fd"]
            pup.rpc("close %d" % fd)
            if fd == 1:
                st.out_closed = True
            if isinstance(st.objs.get(fd), Pipe):
                st.objs[fd].drop(st.label(), fd)
            st.wi += 1
            st.woff = 0
            sim.probe("talker_closed_fd%d_mid_run" % fd)
            sim.ev("step", st.label(), "close fd%d" % fd)
        elif step == "close_out":
            pup.rpc("close 1")
            st.out_closed = True
            if isinstance(st.objs.get(1), Pipe):
                st.objs[1].drop(st.label(), 1)
            sim.ev("step", st.label(), "close-stdout")
        elif step == "exit":
            code = r.get("code", 0)
            sig = r.get("sig")
            if st.epipe and r.get("on_epipe", "sigpipe") == "sigpipe":
                sig = signal.SIGPIPE
            if sig:
                pup.rpc("raise %d" % sig)
                sim.ev("step", st.label(), "die", sig)
            else:
                pup.rpc("exit %d" % code)
                sim.ev("step", st.label(), "exit", code)
            st.expect_term = ("sig", int(sig)) if sig else ("exit", code)
            self.stage_process_ended(st)
        else:
            raise HarnessError("unknown step %r" % step)

    def stage_process_ended(self, st):
        sim = self.sim
        sim.wait_state(st.pid, "ZX", "puppet exit")
        st.pup.alive = False
        st.pup.close()
        st.gone = True
        st.finished_role = True
        sim.children[st.pid] = {"kind": "dead"}
        self.stage_ended_io(st)
        self.wait_dirty = True

    def write_error(self, st, e, fd=1):
        if e == 32:
            st.epipe = True
            self.sim.probe("epipe_seen")
            G = st.group
            oc = st.objs.get(fd)
            if oc is not None and (oc is G.cap_out or oc is G.cap_err) and not self.sc.get("faults") \
                    and not getattr(self, "relaxed", False):
                # The shell is the only reader of a capture pipe and has to drain it to end-of-file, that is
                # until every writer has closed it: a writer that still holds it can never see EPIPE.
                # (Not judged under injected pipe()/fork() failures or an active descriptor limit, where the capture may be abandoned.)
                raise Violation("stream_corrupt", "%s got EPIPE on descriptor %d: the shell closed capture pipe %s "
                                "while its writer was still running" % (st.label(), fd, oc.label))
            o = st.objs.get(1)
            if isinstance(o, Pipe) and o.reader_open and st.group.launched:
                raise Violation("stream_corrupt", "%s got EPIPE although the reader of %s is alive" % (
                    st.label(), o.label))
        else:
            st.epipe = True

    def do_external(self, i, x, st):
        self.externals_done.add(i)
        self.signal_stage(st, x["sig"], "external")

    def signal_stage(self, st, sig, why):
        sim = self.sim
        sim.fault("signal_%d" % sig)
        os.kill(st.pid, sig)
        sim.ev("signal", st.label(), int(sig), why)
        if sig == signal.SIGCONT:
            sim.wait_state(st.pid, "RSDZX", "continue")
            st.stopped = False
            st.cont_pending = True
            self.wait_dirty = True
        elif sig in STOP_SIGS:
            sim.wait_state(st.pid, "TZX", "stop")
            st.stopped = True
            self.wait_dirty = True
            sim.probe("member_stopped")
        else:
            sim.wait_state(st.pid, "ZX", "kill")
            if st.pup is not None:
                st.pup.alive = False
                st.pup.close()
            st.gone = True
            st.expect_term = ("sig", int(sig))
            sim.children[st.pid] = {"kind": "dead"}
            self.stage_ended_io(st)
            self.wait_dirty = True

    # ---------------------------------------------------------------- stream model
    def model_write(self, st, data, fd=1):
        obj = st.objs.get(fd)
        if not data or obj is None:
            return
        if isinstance(obj, Pipe):
            obj.fifo += data
            obj.total += len(data)
            if len(obj.fifo) > PIPE_CAP:
                self.sim.probe("more_than_a_pipe_buffer_in_flight")
        elif isinstance(obj, OFD):
            f = self.files.setdefault(obj.path, bytearray())
            pos = len(f) if obj.append else obj.off
            if pos > len(f):
                f += b"\0" * (pos - len(f))
            f[pos:pos + len(data)] = data
            obj.off = pos + len(data)

    def model_read(self, st, ln, got_crc):
        p = st.objs.get(0)
        if isinstance(p, OFD):
            f = self.files.get(p.path, bytearray())
            data = bytes(f[p.off:p.off + ln])
            if len(data) != ln or crc(data) != got_crc:
                raise Violation("stream_corrupt", "%s read %d bytes from %s that are not the file's content at offset %d" % (
                    st.label(), ln, os.path.basename(p.path), p.off))
            p.off += ln
            return data
        if not isinstance(p, Pipe):
            return None
        if p.opaque:
            return None
        if ln > len(p.fifo):
            raise Violation("stream_corrupt", "%s read %d bytes from %s but only %d were written and unread" % (
                st.label(), ln, p.label, len(p.fifo)))
        data = bytes(p.fifo[:ln])
        del p.fifo[:ln]
        if crc(data) != got_crc:
            raise Violation("stream_corrupt", "%s read %d bytes from %s that differ from what was written" % (
                st.label(), ln, p.label))
        return data

    def model_eof(self, st):
        p = st.objs.get(0)
        if isinstance(p, OFD):
            f = self.files.get(p.path, bytearray())
            if p.off < len(f):
                raise Violation("stream_corrupt", "%s saw end-of-file on %s at offset %d of %d" % (
                    st.label(), os.path.basename(p.path), p.off, len(f)))
            return
        if not isinstance(p, Pipe):
            return
        if p.opaque:
            return
        if len(p.fifo) > 0:
            raise Violation("stream_corrupt", "%s saw end-of-file on %s with %d written bytes undelivered" % (
                st.label(), p.label, len(p.fifo)))
        if p.writer_open:
            raise Violation("stream_corrupt", "%s saw end-of-file on %s while its writer is still open" % (
                st.label(), p.label))
