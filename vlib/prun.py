"""Script-mode runner for engine P: drives one cicada process through a
generated script whose external commands are puppets, with a stream model per
pipe and a scheduler decision at every point where more than one actor can move.

Used by the C02, C04, C08 and C11 checks (they differ in the generated lines,
the fault plan and the oracles switched on)."""
import os
import signal

from psim import (PIPE_CAP, HarnessError, Sim, Violation, crc, fd_snapshot, pipe_ino, proc_fields, proc_state,
                  stream_bytes)

POLLIN, POLLOUT, POLLERR, POLLHUP, POLLNVAL = 1, 4, 8, 16, 32
R_READY = POLLIN | POLLHUP | POLLERR | POLLNVAL
W_READY = POLLOUT | POLLERR | POLLHUP | POLLNVAL

STOP_SIGS = (signal.SIGSTOP, signal.SIGTSTP)


class Pipe:
    """expected content in flight between two pipeline stages"""

    def __init__(self, label):
        self.label = label
        self.fifo = bytearray()
        self.opaque = False       # a non-puppet writer: content not modelled
        self.writer_open = True   # the legitimate writer still holds the write end
        self.reader_open = True
        self.ino = None
        self.total = 0


class Stage:
    def __init__(self, spec, line_no, idx, n):
        self.spec = spec
        self.kind = spec["kind"]          # pup | builtin | notfound | noexec
        self.name = spec.get("name", "")
        self.role = dict(spec.get("role") or {})
        self.line_no = line_no
        self.idx = idx
        self.n = n
        self.pid = None
        self.pup = None
        self.started = 0
        self.term = None                  # ("exit", code) | ("sig", n) as reported by waitpid
        self.gone = False                 # zombie or reaped (ground truth from /proc)
        self.stopped = False
        self.inp = None                   # Pipe feeding fd 0 (or None)
        self.out = None                   # Pipe fed by fd 1 (or None)
        # role progress
        self.written = 0
        self.read_total = 0
        self.eof = False
        self.out_closed = False
        self.in_closed = False
        self.buf = bytearray()            # model of the puppet's forward buffer
        self.finished_role = False
        self.epipe = False

    def label(self):
        return "L%d.s%d" % (self.line_no, self.idx)


class Runner:
    """Runs scenario["lines"]; subclasses override the on_* hooks."""

    prop = "Cxx"

    def __init__(self, scenario, sched, keep_log=True):
        self.sc = scenario
        self.sim = Sim(sched, keep_log)
        self.sched = sched
        self.stages = {}       # pid -> Stage
        self.cur = None        # current line state
        self.line_no = -1
        self.wait_dirty = False
        self.in_wait = False
        self.pipe_calls = 0
        self.fork_calls = 0
        self.drain_rr = 0
        self.done_msgs = []
        self.externals_done = set()
        self.result = {}

    # ---------------------------------------------------------------- shrinking support
    @classmethod
    def rebuild(cls, sc):
        for l in sc["lines"]:
            if not l.get("probe"):
                l["text"] = " | ".join(s["text"] for s in l["stages"]) + (" &" if l.get("bg") else "")
        return sc

    @classmethod
    def reductions(cls, sc):
        """simpler variants of a scenario, most drastic first"""
        import copy
        lines = sc["lines"]
        if sc.get("externals"):
            c = copy.deepcopy(sc)
            c["externals"] = []
            yield c
            for i in range(len(sc["externals"])):
                c = copy.deepcopy(sc)
                del c["externals"][i]
                yield c
        if sc.get("faults"):
            c = copy.deepcopy(sc)
            c["faults"] = {}
            yield c
        # drop whole lines (a pipeline together with its probe line)
        groups = []
        i = 0
        while i < len(lines):
            j = i + 1
            while j < len(lines) and lines[j].get("probe"):
                j += 1
            groups.append((i, j))
            i = j
        if len(groups) > 1:
            for (a, b) in reversed(groups):
                c = copy.deepcopy(sc)
                del c["lines"][a:b]
                shift = b - a
                ext = []
                for x in c.get("externals", []):
                    if a <= x["line"] < b:
                        continue
                    if x["line"] >= b:
                        x = dict(x, line=x["line"] - shift)
                    ext.append(x)
                c["externals"] = ext
                yield cls.rebuild(c)
        for (a, b) in groups:
            for k in range(a, b):
                if lines[k].get("probe") and b - a > 1:
                    c = copy.deepcopy(sc)
                    del c["lines"][k]
                    c["externals"] = [dict(x, line=x["line"] - 1) if x["line"] > k else x
                                      for x in c.get("externals", []) if x["line"] != k]
                    yield cls.rebuild(c)
        # drop single stages
        for li, l in enumerate(lines):
            if l.get("probe") or len(l["stages"]) < 2:
                continue
            for si in range(len(l["stages"])):
                c = copy.deepcopy(sc)
                del c["lines"][li]["stages"][si]
                ext = []
                for x in c.get("externals", []):
                    if x["line"] == li:
                        if x["stage"] == si:
                            continue
                        if x["stage"] > si:
                            x = dict(x, stage=x["stage"] - 1)
                    ext.append(x)
                c["externals"] = ext
                yield cls.rebuild(c)
        # simpler arguments
        for li, l in enumerate(lines):
            for si, st in enumerate(l["stages"]):
                r = st.get("role") or {}
                for key, simple in (("n", 1), ("n", 65537), ("sig", None), ("code", 0), ("k", 0), ("chunk", 65536),
                                    ("rchunk", 65536)):
                    if key in r and r[key] != simple and not (key == "n" and isinstance(simple, int) and r[key] <= simple):
                        c = copy.deepcopy(sc)
                        rr = c["lines"][li]["stages"][si]["role"]
                        if simple is None:
                            del rr[key]
                        else:
                            rr[key] = simple
                        yield cls.rebuild(c)

    # ---------------------------------------------------------------- hooks for subclasses
    def script_text(self):
        raise NotImplementedError

    def on_hello(self, st):
        pass

    def on_line_done(self, line, status):
        pass

    def on_finish(self, exit_status):
        pass

    def expected_children(self, line):
        """stages of a line in fork order"""
        return line["_stages"]

    def pipe_fault(self, k):
        """errno to fail the k-th pipe() of the session with, or None"""
        return None

    def fork_fault(self, k):
        return None

    # ---------------------------------------------------------------- main
    def run(self):
        sim = self.sim
        try:
            script = os.path.join(sim.work, "s.sh")
            with open(script, "w") as f:
                f.write(self.script_text())
            self.prepare_files()
            sim.spawn_shell([script], env_extra=self.shell_env())
            ev = sim.shell_event()
            if ev[0] != "msg" or not ev[1].startswith("hello"):
                raise HarnessError("shell did not greet: %r" % (ev,))
            self.shell_fds0 = fd_snapshot(sim.shell_pid)
            sim.shell_go()
            self.loop()
            return self.result
        finally:
            sim.close()

    def shell_env(self):
        return {}

    def prepare_files(self):
        pass

    def start_line(self):
        self.line_no += 1
        if self.line_no >= len(self.sc["lines"]):
            self.cur = None
            return
        line = self.sc["lines"][self.line_no]
        stages = []
        n = len(line["stages"])
        for i, spec in enumerate(line["stages"]):
            stages.append(Stage(spec, self.line_no, i, n))
        pipes = [Pipe("L%d.p%d" % (self.line_no, i)) for i in range(n - 1)]
        for i, st in enumerate(stages):
            st.inp = pipes[i - 1] if i > 0 else None
            st.out = pipes[i] if i < n - 1 else None
            if st.kind != "pup" and st.out is not None:
                st.out.opaque = True
        line["_stages"] = stages
        line["_pipes"] = pipes
        line["_next_fork"] = 0
        line["_launched"] = False
        line["_forks_failed"] = 0
        self.cur = line
        self.in_wait = False
        self.sim.ev("line", self.line_no, line["text"])

    def loop(self):
        sim = self.sim
        self.start_line()
        guard = 0
        while True:
            guard += 1
            if guard > 200000:
                raise HarnessError("runner loop does not terminate")
            ev = sim.shell_event()
            kind = ev[0]
            if kind == "dead":
                self.shell_died(ev[1])
                return
            if kind == "blocked":
                self.decide(shell_blocked=ev)
                continue
            msg = ev[1]
            w = msg.split()
            if w[0] == "pipe?":
                self.pipe_calls += 1
                e = self.pipe_fault(self.pipe_calls)
                if e:
                    sim.fault("pipe_fail")
                    sim.ev("pipe() fails", e)
                    if self.cur is not None:
                        self.cur["_pipe_failed"] = True
                    sim.shell_go("fail %d" % e)
                else:
                    sim.shell_go()
            elif w[0] == "fork?":
                # a decision point: earlier stages may run before the next one exists
                if self.decide(shell_at="fork?"):
                    self.fork_calls += 1
                    e = self.fork_fault(self.fork_calls)
                    if e:
                        sim.fault("fork_fail")
                        sim.ev("fork() fails", e)
                        self.note_fork_failed()
                        sim.shell_go("fail %d" % e)
                    else:
                        sim.shell_go()
            elif w[0] == "fork=":
                self.child_forked(int(w[1]))
                sim.shell_go()
            elif w[0] == "fork!":
                sim.shell_go()
            elif w[0] == "wait?":
                self.in_wait = True
                if self.cur is not None:
                    self.cur["_launched"] = True
                if self.decide(shell_at="wait?"):
                    sim.shell_go()
            elif w[0] == "wait=":
                self.wait_result(w[1], int(w[2]), int(w[3]))
                sim.shell_go()
            elif w[0] == "done":
                status = int(w[1])
                text = bytes.fromhex(w[2]).decode(errors="replace") if len(w) > 2 else ""
                self.pipeline_done(status, text)
                sim.shell_go()
            elif w[0] == "now?":
                sim.clock_reads += 1
                sim.clock += 0.001
                sim.shell_go("t %.6f" % sim.clock)
            else:
                raise HarnessError("unexpected shell message %r" % msg)

    # ---------------------------------------------------------------- children
    def note_fork_failed(self):
        line = self.cur
        if line is None:
            return
        i = line["_next_fork"]
        if i < len(line["_stages"]):
            st = line["_stages"][i]
            st.gone = True
            st.fork_failed = True
            self.stage_ended_io(st)
            line["_next_fork"] = i + 1
            line["_forks_failed"] += 1

    def child_forked(self, pid):
        sim = self.sim
        line = self.cur
        if line is None:
            raise Violation("stage_started_twice", "a child was forked after the last line finished")
        i = line["_next_fork"]
        exp = self.expected_children(line)
        if i >= len(exp):
            raise Violation("stage_started_twice", "line %d forked more children than it has stages" % self.line_no)
        st = exp[i]
        line["_next_fork"] = i + 1
        st.pid = pid
        st.started += 1
        self.stages[pid] = st
        sim.names[pid] = st.label()
        sim.ev("fork", st.label(), st.kind)
        r = sim.resolve_child(pid)
        if r[0] == "hello":
            pup = r[1]
            st.pup = pup
            sim.children[pid] = {"kind": "puppet"}
            if st.kind != "pup":
                raise Violation("stage_started_twice", "%s (%s) executed a puppet" % (st.label(), st.kind))
            if pup.name != st.name:
                raise Violation("wiring_mismatch", "%s started as %r, expected %r" % (st.label(), pup.name, st.name))
            sim.ev("hello", st.label())
            self.on_hello(st)
        elif r[0] in ("zombie", "gone"):
            sim.children[pid] = {"kind": "dead"}
            st.gone = True
            self.wait_dirty = True
            sim.ev("child-exited-at-once", st.label())
            if st.kind == "pup":
                self.pup_did_not_start(st)
            self.stage_ended_io(st)
        elif r[0] == "blocked":
            sim.children[pid] = {"kind": "free"}
            sim.ev("child-blocked", st.label(), r[1])
            if st.kind == "pup":
                self.pup_did_not_start(st)
        else:
            sim.children[pid] = {"kind": "free"}
            sim.ev("child-" + r[0], st.label())

    def pup_did_not_start(self, st):
        raise Violation("stage_not_started", "%s never executed its program" % st.label())

    def stage_ended_io(self, st):
        """the process is gone: both of its pipe ends are closed"""
        if st.inp is not None:
            st.inp.reader_open = False
        if st.out is not None:
            st.out.writer_open = False

    def refresh_free_children(self):
        if self.sim.settle_free_children():
            self.wait_dirty = True
        for pid, c in self.sim.children.items():
            st = self.stages.get(pid)
            if st is not None and c["kind"] == "dead" and not st.gone:
                st.gone = True
                self.stage_ended_io(st)
                self.sim.ev("free-child-ended", st.label())

    # ---------------------------------------------------------------- wait results
    def wait_result(self, kind, pid, val):
        sim = self.sim
        st = self.stages.get(pid)
        if kind == "alive":
            self.wait_dirty = False
            return
        name = st.label() if st else "?"
        sim.ev("wait=", kind, name, val if kind in ("exited", "signaled") else "")
        if kind == "err":
            return
        if st is None:
            return
        if kind == "continued":
            st.cont_pending = False
        if kind == "exited":
            st.term = ("exit", val)
        elif kind == "signaled":
            st.term = ("sig", val)
        if kind in ("exited", "signaled"):
            st.gone = True
            st.reaped = True
            self.stage_ended_io(st)

    # ---------------------------------------------------------------- line completion
    def pipeline_done(self, status, text):
        sim = self.sim
        line = self.cur
        sim.ev("done", status)
        self.done_msgs.append((self.line_no, status, text))
        if line is None:
            raise Violation("stage_started_twice", "a pipeline finished after the last line")
        self.check_line_done(line, status)
        self.on_line_done(line, status)
        self.start_line()

    def check_line_done(self, line, status):
        pass

    def shell_died(self, status):
        self.sim.ev("shell-exit", status)
        self.on_finish(status)

    # ---------------------------------------------------------------- the scheduler
    def role_steps(self, st, pr):
        """enabled micro-steps of a live puppet stage; pr = (r0, r1, r2, buflen)"""
        r = st.role
        t = r.get("t", "ignorer")
        r0, r1 = pr[0], pr[1]
        steps = []
        if st.stopped:
            return steps
        if t == "source":
            if st.out_closed or st.epipe:
                steps.append("exit")
            elif st.written < r["n"]:
                if r1 & W_READY:
                    steps.append("write")
            else:
                steps.append("close_out")
        elif t == "sink":
            if st.eof:
                steps.append("exit")
            elif r0 & R_READY:
                steps.append("read")
        elif t == "filter":
            if st.epipe:
                steps.append("exit")
            elif len(st.buf) > 0:
                if r1 & W_READY:
                    steps.append("fwd")
            elif not st.eof:
                if r0 & R_READY:
                    steps.append("readk")
            elif not st.out_closed:
                steps.append("close_out")
            else:
                steps.append("exit")
        elif t == "early":
            if st.eof or st.read_total >= r.get("k", 0):
                steps.append("exit")
            elif r0 & R_READY:
                steps.append("read")
        else:
            steps.append("exit")
        return steps

    def live_puppets(self):
        out = []
        for pid, st in self.stages.items():
            if st.pup is not None and not st.gone and st.pup.alive:
                out.append(st)
        out.sort(key=lambda s: (s.line_no, s.idx))
        return out

    def pending_externals(self):
        out = []
        for i, x in enumerate(self.sc.get("externals", [])):
            if i in self.externals_done:
                continue
            if x["line"] != self.line_no:
                continue
            line = self.cur
            if line is None or x["stage"] >= len(line["_stages"]):
                continue
            st = line["_stages"][x["stage"]]
            if st.pid is None or st.gone:
                continue
            sig = x["sig"]
            if sig == signal.SIGCONT and not st.stopped:
                continue
            if sig in STOP_SIGS:
                others = [o for o in line["_stages"] if o is not st and o.pid is not None and not o.gone]
                if st.stopped or not others or not line.get("_launched"):
                    continue
            if st.stopped and sig not in (signal.SIGCONT, signal.SIGKILL):
                continue
            out.append((i, x, st))
        return out

    def decide(self, shell_at=None, shell_blocked=None):
        """One or more scheduler decisions while the shell is parked (or blocked).
        Returns True when the shell is to be released now."""
        sim = self.sim
        while True:
            self.refresh_free_children()
            choices = []
            releasable = False
            if shell_at == "fork?":
                releasable = True
            elif shell_at == "wait?":
                releasable = self.wait_dirty
            if releasable:
                choices.append(("shell",))
            polls = {}
            for st in self.live_puppets():
                if st.stopped:
                    continue
                rep = st.pup.rpc("poll").split()
                pr = tuple(int(x) for x in rep[1:5])
                polls[st.pid] = pr
                for step in self.role_steps(st, pr):
                    choices.append(("pup", st, step))
            self.check_leaked_ends(polls)
            stopped = [st for st in self.live_puppets() if st.stopped]
            cont_pending = [st for st in self.live_puppets() if getattr(st, "cont_pending", False)]
            if stopped or (cont_pending and releasable):
                # while a member is stopped -- or continued without the shell having been told yet --
                # only the shell and the continuation can move, so that "all stages terminated"
                # stays the only legitimate reason for the shell to resume
                choices = [c for c in choices if c[0] == "shell"]
                for st in stopped:
                    choices.append(("cont", st))
            else:
                for i, x, st in self.pending_externals():
                    choices.append(("ext", i, x, st))
            if not choices:
                self.no_choice(shell_at, shell_blocked)
                return False
            if len(choices) == 1:
                c = choices[0]
            else:
                idx = sim.sched.pick(len(choices))
                if idx is None:
                    c = self.drain_choice(choices)
                else:
                    c = choices[idx]
            sim.steps += 1
            if c[0] == "shell":
                return True
            if c[0] == "pup":
                self.do_step(c[1], c[2])
            elif c[0] == "cont":
                self.signal_stage(c[1], signal.SIGCONT, "cont")
            else:
                self.do_external(c[1], c[2], c[3])
            if shell_blocked is not None:
                # the shell may have been woken up by that step
                return False

    def check_leaked_ends(self, polls):
        """Once the shell has forked every stage of the line it holds no pipe end
        any more: a reader whose writers are all gone must see end-of-file at
        once, a writer whose reader is gone must see the pipe broken at once."""
        line = self.cur
        if line is None or not line.get("_launched") or line.get("_forks_failed"):
            return
        for st in self.live_puppets():
            if st.line_no != self.line_no or st.stopped:
                continue
            pr = polls.get(st.pid)
            if pr is None:
                continue
            t = st.role.get("t")
            p = st.inp
            if p is not None and not p.opaque and not p.writer_open and len(p.fifo) == 0 and not st.eof \
                    and t in ("sink", "filter", "early") and not (pr[0] & R_READY):
                raise Violation("eof_missing", "%s gets no end-of-file on %s although every writer is gone "
                                               "(some process still holds the write end)" % (st.label(), p.label))
            p = st.out
            if p is not None and not p.reader_open and not st.out_closed and t in ("source", "filter") \
                    and not (pr[1] & POLLERR):
                raise Violation("epipe_missing", "%s can still write to %s although its reader is gone "
                                                 "(some process still holds the read end)" % (st.label(), p.label))

    def drain_choice(self, choices):
        """cooperative phase: every role is run to completion fairly and the
        shell is released whenever possible; pending external signals are dropped"""
        for c in choices:
            if c[0] == "cont":
                return c
        for c in choices:
            if c[0] == "shell":
                return c
        pups = [c for c in choices if c[0] == "pup"]
        if pups:
            self.drain_rr += 1
            return pups[self.drain_rr % len(pups)]
        # only externals left: deliver continues so that nothing stays stopped, drop the rest
        for c in choices:
            if c[0] == "ext" and c[2]["sig"] == signal.SIGCONT:
                return c
        c = choices[0]
        return c

    def no_choice(self, shell_at, shell_blocked):
        """nobody can move"""
        sim = self.sim
        stopped = [st for st in self.live_puppets() if st.stopped]
        if stopped:
            # a stopped member with nobody to continue it: the harness continues it (drain)
            st = stopped[0]
            self.signal_stage(st, signal.SIGCONT, "drain")
            return
        alive = [st.label() for st in self.live_puppets()]
        free = [self.stages[p].label() for p, c in sim.children.items() if c["kind"] == "free" and p in self.stages]
        where = shell_at or ("blocked in %s on %s" % (shell_blocked[1], sim.iname(shell_blocked[3])))
        raise Violation("deadlock", "shell %s; no process can take a step (live puppets: %s; blocked builtins: %s)" % (
            where, ",".join(alive) or "-", ",".join(free) or "-"))

    # ---------------------------------------------------------------- micro-steps
    def do_step(self, st, step):
        sim = self.sim
        pup = st.pup
        r = st.role
        if step == "write":
            chunk = r.get("chunk", 4096)
            n = min(chunk, r["n"] - st.written)
            rep = pup.rpc("write 1 %d %d %d" % (n, r["seed"], st.written)).split()
            if rep[0] == "wrote":
                done = int(rep[1])
                self.model_write(st, stream_bytes(r["seed"], st.written, done))
                st.written += done
                sim.ev("step", st.label(), "write", done, "full" if rep[2] == "1" else "")
                if rep[2] == "1":
                    sim.probe("writer_blocked_on_full_pipe")
            elif rep[0] == "err":
                e, done = int(rep[1]), int(rep[2])
                if done:
                    self.model_write(st, stream_bytes(r["seed"], st.written, done))
                    st.written += done
                sim.ev("step", st.label(), "write-error", e)
                self.write_error(st, e)
            else:
                raise HarnessError("puppet reply %r" % rep)
        elif step == "fwd":
            rep = pup.rpc("writebuf 1").split()
            if rep[0] == "wrote":
                done = int(rep[1])
                self.model_write(st, bytes(st.buf[:done]))
                del st.buf[:done]
                sim.ev("step", st.label(), "fwd", done, "full" if rep[2] == "1" else "")
                if rep[2] == "1":
                    sim.probe("writer_blocked_on_full_pipe")
            elif rep[0] == "err":
                e, done = int(rep[1]), int(rep[2])
                if done:
                    self.model_write(st, bytes(st.buf[:done]))
                    del st.buf[:done]
                sim.ev("step", st.label(), "fwd-error", e)
                self.write_error(st, e)
            else:
                raise HarnessError("puppet reply %r" % rep)
        elif step in ("read", "readk"):
            n = r.get("rchunk", 4096)
            if r.get("t") == "early":
                n = max(1, min(n, r.get("k", 0) - st.read_total))
            rep = pup.rpc("read 0 %d %d" % (n, 1 if step == "readk" else 0)).split()
            if rep[0] == "data":
                ln = int(rep[1])
                data = self.model_read(st, ln, rep[2])
                st.read_total += ln
                if step == "readk":
                    if data is None:
                        # content from a writer that is not modelled: whatever is forwarded is not modelled either
                        data = b"\0" * ln
                        if st.out is not None:
                            st.out.opaque = True
                    st.buf += data
                sim.ev("step", st.label(), "read", ln)
            elif rep[0] == "eof":
                self.model_eof(st)
                st.eof = True
                sim.ev("step", st.label(), "eof")
            elif rep[0] == "wouldblock":
                raise HarnessError("read offered although not readable")
            else:
                sim.ev("step", st.label(), "read-error", rep[1] if len(rep) > 1 else "")
                st.eof = True
        elif step == "close_out":
            pup.rpc("close 1")
            st.out_closed = True
            if st.out is not None:
                st.out.writer_open = False
            sim.ev("step", st.label(), "close-stdout")
        elif step == "exit":
            code = r.get("code", 0)
            sig = r.get("sig")
            if st.epipe and r.get("on_epipe", "sigpipe") == "sigpipe":
                sig = signal.SIGPIPE
            if sig:
                pup.rpc("raise %d" % sig)
                sim.ev("step", st.label(), "die", sig)
            else:
                pup.rpc("exit %d" % code)
                sim.ev("step", st.label(), "exit", code)
            st.expect_term = ("sig", int(sig)) if sig else ("exit", code)
            self.stage_process_ended(st)
        else:
            raise HarnessError("unknown step %r" % step)

    def stage_process_ended(self, st):
        sim = self.sim
        sim.wait_state(st.pid, "ZX", "puppet exit")
        st.pup.alive = False
        st.pup.close()
        st.gone = True
        st.finished_role = True
        sim.children[st.pid] = {"kind": "dead"}
        self.stage_ended_io(st)
        self.wait_dirty = True

    def write_error(self, st, e):
        if e == 32:
            st.epipe = True
            self.sim.probe("epipe_seen")
            if st.out is not None and st.out.reader_open and self.cur is not None and self.cur.get("_launched"):
                raise Violation("stream_corrupt", "%s got EPIPE although its reader %s is alive" % (
                    st.label(), st.out.label))
        else:
            st.epipe = True

    def do_external(self, i, x, st):
        self.externals_done.add(i)
        self.signal_stage(st, x["sig"], "external")

    def signal_stage(self, st, sig, why):
        sim = self.sim
        sim.fault("signal_%d" % sig)
        os.kill(st.pid, sig)
        sim.ev("signal", st.label(), int(sig), why)
        if sig == signal.SIGCONT:
            sim.wait_state(st.pid, "RSDZX", "continue")
            st.stopped = False
            st.cont_pending = True
            self.wait_dirty = True
        elif sig in STOP_SIGS:
            sim.wait_state(st.pid, "TZX", "stop")
            st.stopped = True
            self.wait_dirty = True
            sim.probe("member_stopped")
        else:
            sim.wait_state(st.pid, "ZX", "kill")
            if st.pup is not None:
                st.pup.alive = False
                st.pup.close()
            st.gone = True
            st.expect_term = ("sig", int(sig))
            sim.children[st.pid] = {"kind": "dead"}
            self.stage_ended_io(st)
            self.wait_dirty = True

    # ---------------------------------------------------------------- stream model
    def model_write(self, st, data):
        p = st.out
        if p is None or not data:
            return
        p.fifo += data
        p.total += len(data)
        if len(p.fifo) > PIPE_CAP:
            self.sim.probe("more_than_a_pipe_buffer_in_flight")

    def model_read(self, st, ln, got_crc):
        p = st.inp
        if p is None:
            return None
        if p.opaque:
            return None
        if ln > len(p.fifo):
            raise Violation("stream_corrupt", "%s read %d bytes from %s but only %d were written and unread" % (
                st.label(), ln, p.label, len(p.fifo)))
        data = bytes(p.fifo[:ln])
        del p.fifo[:ln]
        if crc(data) != got_crc:
            raise Violation("stream_corrupt", "%s read %d bytes from %s that differ from what was written" % (
                st.label(), ln, p.label))
        return data

    def model_eof(self, st):
        p = st.inp
        if p is None:
            return
        if p.opaque:
            return
        if len(p.fifo) > 0:
            raise Violation("stream_corrupt", "%s saw end-of-file on %s with %d written bytes undelivered" % (
                st.label(), p.label, len(p.fifo)))
        if p.writer_open:
            raise Violation("stream_corrupt", "%s saw end-of-file on %s while its writer is still open" % (
                st.label(), p.label))
