"""C07 -- the terminal belongs to the foreground job while it runs, else to the shell."""
import os
import re
import signal
import time

import common
import pbatch
from psim import (WATCHDOG, HarnessError, Rng, Schedule, Sim, Violation, proc_fields, proc_state)
from ptyrun import PtyShell

JOB_LINE = re.compile(r"\[(\d+)\]\s+(\d+)\s+([A-Za-z]+)")
DONE_WORDS = ("Done", "Killed", "Terminated", "Interrupt", "Quit")


def gen_scenario(rng, cfg):
    ops = []
    n = 5 + rng.below(cfg.get("max_actions", 21))
    for _ in range(n):
        k = rng.below(100)
        if k < 22:
            ops.append({"op": "launch", "bg": False, "n": rng.choice([1, 1, 2, 3]),
                        "codes": [rng.choice([0, 0, 1, 5]) for _ in range(3)], "helper": rng.chance(20)})
            if ops[-1]["n"] >= 2 and rng.chance(10):
                # fault: fork() fails for the first stage; the later stages still run, and the job table must be
                # left without a trace of the line afterwards
                ops[-1]["forkfail"] = True
                ops[-1]["helper"] = False
        elif k < 36:
            ops.append({"op": "launch", "bg": True, "n": rng.choice([1, 1, 2, 3]),
                        "codes": [rng.choice([0, 0, 1, 5]) for _ in range(3)], "helper": rng.chance(20)})
        elif k < 46:
            ops.append({"op": "ctrlz"})
        elif k < 51:
            ops.append({"op": "ctrlc"})
        elif k < 60:
            ops.append({"op": "fg", "job": rng.below(3), "bare": rng.chance(20), "pct": rng.chance(30)})
        elif k < 68:
            ops.append({"op": "bg", "job": rng.below(3), "bare": rng.chance(20), "pct": rng.chance(30)})
        elif k < 80:
            ops.append({"op": "sig", "job": rng.below(3), "member": rng.below(3),
                        "sig": int(rng.choice([signal.SIGKILL, signal.SIGSTOP, signal.SIGCONT, signal.SIGTERM, signal.SIGSTOP]))})
        elif k < 88:
            ops.append({"op": "exit", "job": rng.below(3), "member": rng.below(3)})
        elif k < 94:
            ops.append({"op": "jobs"})
        elif k < 95:
            if rng.chance(40):
                ops.append({"op": "empty"})
            else:
                # job-control builtins that cannot find their job: an error message, nothing else changes
                ops.append({"op": "badjob", "line": rng.choice(["fg 99", "bg 99", "fg abc", "bg %zz", "fg %98", "bg 0"])})
        elif k < 96:
            ops.append({"op": "detach", "job": rng.below(3)})
        elif k < 98:
            ops.append({"op": "notfound"})
        else:
            ops.append({"op": "subst", "style": rng.choice(["word", "assign"]), "spelling": rng.choice(["back", "dollar"])})
    return {"prop": "C07", "ops": ops, "handler": cfg.get("handler", False) and rng.chance(50),
            "childpark": bool(cfg.get("childpark")), "lines": [], "launcher": rng.chance(25),
            "settle_handler": rng.chance(50)}


class Member:
    def __init__(self, name, code):
        self.name = name
        self.code = code
        self.pid = None
        self.pup = None
        self.dead = False
        self.stopped = False
        self.told_stopped = False    # the shell's latest report about this process says "stopped"
        self.cont_untold = False     # continued from outside after that; the shell has not been told yet


class Job:
    def __init__(self, ordinal, bg, members):
        self.ordinal = ordinal
        self.bg = bg
        self.members = members
        self.id = None
        self.gid = None
        self.done_reports = 0

    def live(self):
        return [m for m in self.members if m.pid is not None and not m.dead]

    def label(self):
        return "J%d" % self.ordinal


class C07Runner:
    prop = "C07"

    def __init__(self, scenario, sched, keep_log=True):
        self.sc = scenario
        self.sim = Sim(sched, keep_log)
        self.sched = sched
        self.jobs = []           # all jobs ever launched (model)
        self.fg = None           # job currently in the foreground (the shell waits for it)
        self.pending = []        # members being forked for the line just typed
        self.opi = 0
        self.state = "start"
        self.wait_dirty = False
        self.shell = None
        self.finishing = False
        self.jobs_query = False
        self.result = {}
        self.parked_children = {}
        self.typed_pending = False

    @classmethod
    def reductions(cls, sc):
        import copy
        ops = sc["ops"]
        # drop halves, then single operations
        n = len(ops)
        if n > 1:
            for a, b in ((n // 2, n), (0, n // 2)):
                c = copy.deepcopy(sc)
                del c["ops"][a:b]
                yield c
        for i in range(n - 1, -1, -1):
            c = copy.deepcopy(sc)
            del c["ops"][i]
            yield c
        for i, o in enumerate(ops):
            if o["op"] == "launch" and o["n"] > 1:
                c = copy.deepcopy(sc)
                c["ops"][i]["n"] = o["n"] - 1
                yield c
        if sc.get("handler"):
            c = copy.deepcopy(sc)
            c["handler"] = False
            yield c
        if sc.get("childpark"):
            c = copy.deepcopy(sc)
            c["childpark"] = False
            yield c

    # ------------------------------------------------------------------ helpers
    def live_jobs(self):
        return [j for j in self.jobs if j.live()]

    def job_by_slot(self, slot):
        lj = [j for j in self.live_jobs() if j is not self.fg]
        if not lj:
            return None
        return lj[slot % len(lj)]

    def truth_state(self, m):
        st = proc_state(m.pid)
        return st

    def expected_table(self):
        """id -> 'Running'|'Stopped' from ground truth (/proc) for every job with a live process"""
        out = {}
        for j in self.live_jobs():
            states = [self.truth_state(m) for m in j.live()]
            alive = [s for s in states if s not in ("Z", "X")]
            if not alive:
                continue
            out[j.gid] = "Stopped" if all(s == "T" for s in alive) else "Running"
        return out

    def next_free_id(self):
        # an id is in use until the shell has polled after the job's last process died
        used = {j.id for j in self.jobs if j.id is not None and j.gid is not None and not getattr(j, "removed", False)
                and not getattr(j, "substitution", False)}
        i = 1
        while i in used:
            i += 1
        return i

    # ------------------------------------------------------------------ main
    def run(self):
        sim = self.sim
        try:
            env = {}
            if self.sc.get("handler"):
                env["CICADA_ENABLE_SIG_HANDLER"] = "1"
            if self.sc.get("log_file"):
                env["CICADA_LOG_FILE"] = os.path.join(sim.home, "cicada.log")
            self.shell = PtyShell(sim, env_extra=env, launcher=bool(self.sc.get("launcher")))
            ev = sim.shell_event()
            if ev[0] != "msg" or not ev[1].startswith("hello"):
                raise HarnessError("shell did not greet: %r" % (ev,))
            sim.shell_said_hello(int(ev[1].split()[1]))
            self.shell.pid = sim.shell_pid
            self.shell.pgid = int(ev[1].split()[2])
            if self.sc.get("launcher"):
                sim.probe("shell_started_by_a_launcher_not_group_leader")
            sim.shell_go()
            self.loop()
            return self.result
        finally:
            sim.close()

    def loop(self):
        sim = self.sim
        guard = 0
        while True:
            guard += 1
            if guard > 100000:
                raise HarnessError("session does not terminate")
            ev = sim.shell_event(tty_idle=not self.typed_pending)
            kind = ev[0]
            if kind == "msg":
                self.typed_pending = False
            if kind == "dead":
                if not self.finishing:
                    raise Violation("shell_died", "the shell exited with status %s in the middle of the session" % ev[1])
                sim.ev("shell-exit")
                return
            if kind == "tty":
                if not self.shell.raw_mode():
                    continue
                self.at_tty()
                continue
            if kind == "blocked":
                # the line editor also waits on an internal pipe while it reads the terminal
                if ev[1] == "read" and self.shell.raw_mode():
                    if not self.typed_pending:
                        self.at_tty()
                    continue
                # the shell drains the capture pipes of a substitution: its inner command finishes
                inner = [m for j in self.jobs if getattr(j, "substitution", False) for m in j.live()
                         if m.pup is not None and self.truth_state(m) not in ("Z", "X")]
                if not inner:
                    raise HarnessError("interactive shell blocked on a pipe: %r" % (ev,))
                rep = inner[0].pup.rpc("pgrp").split()
                if len(rep) >= 3 and rep[1] != rep[2]:
                    raise Violation("tty_not_job_in_fg", "the inner command of a substitution (%s) runs in group %s while the "
                                    "terminal belongs to group %s: it could not read the terminal" % (inner[0].name, rep[1], rep[2]))
                self.sim.probe("substitution_inner_command_owns_the_terminal")
                inner[0].pup.rpc("writehex 1 %s" % b"sub".hex())
                self.member_exit(inner[0], None)
                continue
            w = ev[1].split()
            if w[0] == "prompt":
                self.at_prompt()
                sim.shell_go()
            elif w[0] == "pipe?":
                sim.shell_go()
            elif w[0] == "fork?":
                if getattr(self, "fail_next_fork", False) and self.pending:
                    self.fail_next_fork = False
                    m = self.pending.pop(0)
                    m.dead = True
                    sim.fault("fork_fail_first_stage")
                    sim.ev("fork() fails", m.name)
                    sim.shell_go("fail 11")
                else:
                    sim.shell_go("go childpark" if self.sc.get("childpark") else "go")
            elif w[0] == "fork=":
                self.child_forked(int(w[1]))
                sim.shell_go()
            elif w[0] == "fork!":
                sim.shell_go()
            elif w[0] == "wait?":
                if self.at_wait():
                    sim.shell_go()
            elif w[0] == "wait=":
                self.wait_result(w[1], int(w[2]), int(w[3]))
                sim.shell_go()
            elif w[0] == "done":
                sim.ev("done", w[1])
                sim.shell_go()
            elif w[0] == "now?":
                sim.clock += 0.001
                sim.shell_go("t %.6f" % sim.clock)
            else:
                raise HarnessError("unexpected shell message %r" % ev[1])

    # ------------------------------------------------------------------ park points
    def at_prompt(self):
        sim = self.sim
        sh = self.shell
        sim.ev("prompt")
        self.idle_waits = 0
        self.release_parked_children()
        owner = sh.fg_pgrp()
        if owner != sh.pgid:
            who = [j.label() for j in self.jobs if j.gid == owner]
            raise Violation("tty_not_shell_at_prompt", "at the prompt the terminal's foreground group is %s, not the shell's" % (
                who[0] if who else "a foreign group"))
        if self.fg is not None:
            # a member whose stop the shell was told about and whose later continuation (from outside) it has not
            # been told about yet is, for all the shell can know, stopped: returning is legitimate
            running = [m for m in self.fg.live() if self.truth_state(m) not in ("T", "Z", "X") and not m.cont_untold]
            if running:
                raise Violation("prompt_while_fg_running", "the prompt returned while %s of the foreground job is running" % running[0].name)
            # the foreground job stopped (or ended): it is a background/stopped job from now on
            self.fg = None
        if self.pending:
            raise Violation("stage_not_started", "line finished but %d of its processes were never forked" % len(self.pending))
        for j in self.jobs:
            if j.gid is not None and not j.live():
                j.removed = True   # the poll at the end of the line has dropped it from the table
        job = getattr(self, "after_bg", None)
        if job is not None:
            self.after_bg = None
            for m in job.live():
                if self.truth_state(m) == "T":
                    raise Violation("bg_not_resumed", "after `bg` %s of %s is still stopped" % (m.name, job.label()))
                m.stopped = False
            self.helper_resumed(job, "bg")
            self.sim.probe("bg_resumed_whole_job")
        self.scan_output()
        self.state = "prompt"

    def scan_output(self):
        """job listings and notifications printed since the last scan"""
        text = self.shell.text_since_mark()
        self.shell.set_mark()
        listing = {}
        reports = []
        for line in text.splitlines():
            m = JOB_LINE.search(line)
            if not m:
                continue
            jid, gid, word = int(m.group(1)), int(m.group(2)), m.group(3)
            job = next((j for j in self.jobs if j.gid == gid), None)
            if job is None:
                continue
            if word in DONE_WORDS:
                job.done_reports += 1
                reports.append(job.label())
                if job.done_reports > 1:
                    raise Violation("done_report_count", "%s was reported as finished %d times" % (job.label(), job.done_reports))
                if job.live():
                    alive = [m for m in job.live() if self.truth_state(m) not in ("Z", "X")]
                    if alive:
                        raise Violation("done_report_count", "%s was reported as finished while %s is alive" % (job.label(), alive[0].name))
            elif word in ("Running", "Stopped"):
                if job.id is not None and jid != job.id and line.strip().startswith("["):
                    raise Violation("jobs_listing_mismatch", "%s is listed under id %d, it was given %d (smallest unused) at launch" % (
                        job.label(), jid, job.id))
                listing[gid] = (jid, word)
        # (the order of notifications within one poll is the iteration order of a HashMap: logged as a set)
        for lab in sorted(reports):
            self.sim.ev("report", lab, "finished")
        if self.jobs_query:
            self.jobs_query = False
            want = self.expected_table()
            got = {g: w for g, (i, w) in listing.items()}
            names = {j.gid: j.label() for j in self.jobs}
            if got != want:
                def show(d):
                    return "{%s}" % ", ".join("%s:%s" % (names.get(g, g), d[g]) for g in sorted(d, key=lambda x: names.get(x, "")))
                raise Violation("jobs_listing_mismatch", "`jobs` listed %s, the live jobs are %s" % (show(got), show(want)))
            ids = [i for g, (i, w) in listing.items()]
            if len(set(ids)) != len(ids):
                raise Violation("jobs_listing_mismatch", "`jobs` listed two jobs under one id")
            self.sim.probe("jobs_listing_checked")
            if len(want) >= 2:
                self.sim.probe("two_or_more_jobs_listed")

    def at_tty(self):
        """the shell reads the terminal: perform operations until a line has been typed"""
        sim = self.sim
        while True:
            if self.opi >= len(self.sc["ops"]):
                self.finish()
                return
            op = self.sc["ops"][self.opi]
            self.opi += 1
            k = op["op"]
            if k in ("ctrlz", "ctrlc", "sync"):
                continue  # nothing in the foreground
            if k in ("sig", "exit"):
                self.event_op(op)
                continue
            if k == "detach":
                self.detach_op(op)
                continue
            if self.type_op(op):
                self.typed_pending = True
                return

    def type_op(self, op):
        sim = self.sim
        sh = self.shell
        k = op["op"]
        sim.steps += 1
        if k == "launch":
            if len(self.live_jobs()) >= 3:
                return False
            o = len(self.jobs)
            members = [Member("j%dm%d" % (o, i), op["codes"][i]) for i in range(op["n"])]
            job = Job(o, op["bg"], members)
            job.helper = bool(op.get("helper"))
            if op.get("forkfail") and not op["bg"] and op["n"] >= 2 and not self.sc.get("childpark"):
                job.faulted = True
                self.fail_next_fork = True
            self.jobs.append(job)
            self.pending = list(members)
            self.launching = job
            job.id = self.next_free_id()   # a new job takes the smallest unused id; checked against every listing
            job.want_id = job.id
            if not op["bg"]:
                self.fg = job
            line = " | ".join("pup " + m.name for m in members) + (" &" if op["bg"] else "")
            sim.ev("type", line)
            sim.probe("launch_bg" if op["bg"] else "launch_fg")
            if op["n"] >= 3:
                sim.probe("three_stage_pipeline")
            sh.type_line(line)
            return True
        if k in ("fg", "bg"):
            job = self.job_by_slot(op["job"])
            others = [j for j in self.live_jobs() if j is not self.fg]
            if job is None or job.id is None:
                return False
            bare = op.get("bare") and len(others) == 1
            line = k if bare else ("%s %%%d" if op.get("pct") else "%s %d") % (k, job.id)
            sim.ev("type", "%s %s" % (k, job.label()))
            if k == "fg" and getattr(job, "detached", False):
                # tcsetpgrp() to a vanished group fails: fg reports an error and returns
                sim.probe("fg_with_failing_terminal_handover")
                sh.type_line(line)
                return True
            for m in job.live():
                # the shell continues the group itself: it knows
                m.told_stopped = False
                m.cont_untold = False
            if k == "fg":
                self.fg = job
                self.fg_by_builtin = True
                job.was_fg = True
                for m in job.live():
                    if m.stopped:
                        m.stopped = False
                        m.cont_unreported = True
                        self.wait_dirty = True
                sim.probe("fg_builtin")
                if any(self.truth_state(m) == "T" for m in job.live()):
                    sim.probe("fg_of_stopped_job")
            else:
                self.bg_target = job
                sim.probe("bg_builtin")
            sh.type_line(line)
            if k == "bg":
                self.after_bg = job
            return True
        if k == "jobs":
            sim.ev("type", "jobs")
            self.jobs_query = True
            self.shell.set_mark()
            sh.type_line("jobs")
            return True
        if k == "badjob":
            sim.ev("type", op["line"])
            sim.probe("fg_or_bg_with_an_unknown_job")
            sh.type_line(op["line"])
            return True
        if k == "empty":
            sim.ev("type", "<empty>")
            sh.type_line("")
            return True
        if k == "notfound":
            sim.ev("type", "no_such_cmd_c07")
            self.expect_anon = 1
            sim.probe("command_not_found_in_foreground")
            sh.type_line("no_such_cmd_c07")
            return True
        if k == "subst":
            o = len(self.jobs)
            inner = Member("s%di" % o, 0)
            members = [inner]
            job = Job(o, False, members)
            job.substitution = True
            self.jobs.append(job)
            self.pending = [inner]
            self.launching = job
            job.want_id = None
            if op["style"] == "word":
                outer = Member("s%do" % o, 0)
                job2 = Job(o + 1, False, [outer])
                job2.id = self.next_free_id()
                job2.want_id = job2.id
                self.jobs.append(job2)
                self.pending.append(outer)
                self.fg = None
                line = ("pup s%do a`pup s%di`b" if op.get("spelling", "back") == "back" else "pup s%do a$(pup s%di)b") % (o, o)
            else:
                line = ("XS=a`pup s%di`b" if op.get("spelling", "back") == "back" else "XS=a$(pup s%di)b") % o
            sim.ev("type", line)
            sim.probe("substitution_line")
            sh.type_line(line)
            return True
        return False

    # ------------------------------------------------------------------ children of the shell
    def child_forked(self, pid):
        sim = self.sim
        if getattr(self, "expect_anon", 0):
            self.expect_anon -= 1
            sim.names[pid] = "anon"
            if self.sc.get("childpark"):
                self.accept_parked_child(pid)
                self.release_child(pid)
            r = sim.resolve_child(pid)
            sim.children[pid] = {"kind": "dead" if r[0] in ("zombie", "gone") else "free"}
            sim.ev("fork", "anon", r[0])
            self.wait_dirty = True
            return
        if not self.pending:
            raise Violation("stage_started_twice", "the shell forked a child nobody asked for")
        m = self.pending.pop(0)
        m.pid = pid
        sim.names[pid] = m.name
        job = next(j for j in self.jobs if m in j.members)
        if job.gid is None:
            job.gid = pid
        if not job.bg and not getattr(job, "substitution", False) and self.fg is None:
            self.fg = job
        sim.ev("fork", m.name)
        if self.sc.get("childpark"):
            c = self.accept_parked_child(pid)
            first = m is job.members[0]
            # who runs first after the fork: the child or the shell?
            pick = self.sched.pick(2)
            if pick is None or pick == 0 or len(job.members) == 1:
                self.release_child(pid)
                self.resolve(m, job)
            else:
                sim.ev("parent-first", m.name)
                sim.probe("parent_runs_before_child")
                m.parked = True
        else:
            self.resolve(m, job)

    def accept_parked_child(self, pid):
        sim = self.sim
        deadline = time.time() + WATCHDOG
        import select as _s
        while pid not in self.parked_children:
            r, _, _ = _s.select([sim.ctl_listen], [], [], 1.0)
            if r:
                conn, _ = sim.ctl_listen.accept()
                buf = b""
                while b"\n" not in buf:
                    d = conn.recv(256)
                    if not d:
                        break
                    buf += d
                w = buf.split()
                if len(w) >= 2 and w[0] == b"child":
                    self.parked_children[int(w[1])] = conn
                else:
                    conn.close()
            elif time.time() > deadline:
                raise HarnessError("forked child %d did not park" % pid)
        return self.parked_children[pid]

    def release_child(self, pid):
        conn = self.parked_children.pop(pid, None)
        if conn is not None:
            try:
                conn.sendall(b"go\n")
            except OSError:
                pass
            conn.close()

    def release_parked_children(self):
        for j in self.jobs:
            for m in j.members:
                if getattr(m, "parked", False):
                    m.parked = False
                    self.sim.ev("release-child", m.name)
                    self.release_child(m.pid)
                    self.resolve(m, j)

    def resolve(self, m, job):
        sim = self.sim
        r = sim.resolve_child(m.pid)
        if r[0] != "hello":
            raise Violation("stage_not_started", "%s did not start its program (%s)" % (m.name, r[0]))
        m.pup = r[1]
        sim.children[m.pid] = {"kind": "puppet"}
        if m.pup.name != m.name:
            raise Violation("stage_started_twice", "%s started as %r" % (m.name, m.pup.name))
        sim.ev("hello", m.name)
        self.check_group(m, job, m.pup.hello["pgrp"])
        if getattr(job, "helper", False) and m is job.members[-1]:
            # a stage that starts a process of its own inside the job's group: job control acts on the group
            rep = m.pup.rpc("spawn").split()
            if rep[0] == "spawned" and int(rep[1]) > 0:
                job.helper_pid = int(rep[1])
                sim.names[job.helper_pid] = m.name + ".helper"
                sim.probe("job_with_a_grandchild_in_its_group")
        sig = m.pup.hello.get("sig", {})
        blocked = [b for b in sig.get("blocked", []) if b in (2, 20, 21, 22)]
        bad = [n for n in ("2", "20", "21", "22") if sig.get(n) not in (None, "dfl")]
        if blocked or bad:
            raise Violation("signal_disposition", "%s was started with job-control signals blocked %s / not default %s: "
                            "Ctrl-Z and Ctrl-C cannot reach it" % (m.name, blocked, bad))

    def check_group(self, m, job, pgrp):
        if getattr(job, "substitution", False) or getattr(job, "detached", False) or getattr(job, "faulted", False):
            return
        if pgrp != job.gid:
            where = "the shell's own group" if pgrp == self.shell.pgid else "group %d" % pgrp
            raise Violation("pgrp_mismatch", "%s runs in %s instead of the group led by the first stage of %s" % (
                m.name, where, job.label()))

    # ------------------------------------------------------------------ the foreground wait
    def at_wait(self):
        """the shell is parked in a (simulated blocking) wait. Returns True to release it."""
        sim = self.sim
        sh = self.shell
        job = self.fg
        self.release_parked_children()
        if self.pending and not getattr(getattr(self, "launching", None), "substitution", False):
            raise Violation("stage_not_started", "the shell waits although %d processes of the line were never forked" % len(self.pending))
        if job is not None and job.live() and not getattr(job, "substitution", False) and not getattr(job, "faulted", False):
            owner = sh.fg_pgrp()
            if owner != job.gid:
                who = "the shell" if owner == sh.pgid else "group %d" % owner
                raise Violation("tty_not_job_in_fg", "while %s runs in the foreground the terminal belongs to %s" % (job.label(), who))
            for m in job.live():
                f = proc_fields(m.pid)
                if f is not None and f["state"] not in ("Z", "X"):
                    self.check_group(m, job, f["pgrp"])
            if getattr(self, "fg_by_builtin", False):
                self.fg_by_builtin = False
                for m in job.live():
                    if self.truth_state(m) == "T":
                        raise Violation("fg_not_resumed", "after `fg` %s of %s is still stopped" % (m.name, job.label()))
                self.helper_resumed(job, "fg")
                sim.probe("fg_resumed_whole_job")
            for other in self.live_jobs():
                if other is not job and other.gid == owner:
                    raise Violation("bg_owns_tty", "%s owns the terminal while %s is in the foreground" % (other.label(), job.label()))
            sim.probe("fg_wait_checked")
        while True:
            choices = []
            if self.wait_dirty:
                choices.append("release")
            op = self.sc["ops"][self.opi] if self.opi < len(self.sc["ops"]) else None
            if op is not None and op["op"] == "sync" and not self.finishing:
                # (explicit sessions only) the shell collects what has happened so far before the next event
                if self.wait_dirty:
                    return True
                self.opi += 1
                continue
            if op is not None and op["op"] in ("sig", "exit", "ctrlz", "ctrlc") and not self.finishing:
                choices.append("op")
            if not choices:
                # nothing scheduled: the foreground job is driven to its end (or it is a line op's turn)
                if job is None or not [m for m in job.live() if self.truth_state(m) not in ("Z", "X")]:
                    # only zombies left: their reports are pending
                    self.idle_waits = getattr(self, "idle_waits", 0) + 1
                    if self.idle_waits > 12:
                        raise Violation("deadlock", "the shell keeps waiting in the foreground although no process of %s is "
                                        "left to wait for" % (job.label() if job else "the line"))
                    self.wait_dirty = True
                    return True
                self.idle_waits = 0
                m = next((x for x in job.live() if self.truth_state(x) not in ("T", "Z", "X")), None)
                if m is None:
                    # all stopped with the shell still waiting: it must have been told already
                    raise Violation("deadlock", "every member of %s is stopped but the shell keeps waiting" % job.label())
                self.member_exit(m, job)
                continue
            if len(choices) == 1:
                c = choices[0]
            else:
                i = self.sched.pick(2)
                c = choices[i if i is not None else 0]
            if c == "release":
                return True
            self.opi += 1
            sim.steps += 1
            if op["op"] in ("sig", "exit"):
                self.event_op(op, in_wait=True)
            elif op["op"] == "ctrlz":
                self.ctrl(job, b"\x1a", "T", "ctrlz")
            else:
                self.ctrl(job, b"\x03", "ZX", "ctrlc")

    def ctrl(self, job, key, want, name):
        sim = self.sim
        if job is None or getattr(job, "substitution", False) or getattr(job, "faulted", False):
            return
        live = [m for m in job.live() if self.truth_state(m) not in ("Z", "X", "T")]
        if not live:
            return
        if name == "ctrlc" and any(self.truth_state(m) == "T" for m in job.live()):
            # SIGINT would stay pending on the stopped member until it is continued: not generated
            return
        if self.shell.raw_mode():
            return
        sim.ev(name, job.label())
        sim.fault("key_" + name)
        self.shell.type(key)
        for m in job.live():
            st = self.truth_state(m)
            if st in ("Z", "X"):
                self.mark_dead(m)
                continue
            if name == "ctrlz" and st == "T":
                continue
            deadline = time.time() + WATCHDOG
            while True:
                st = self.truth_state(m)
                if st in want or st in ("Z", "X"):
                    break
                if time.time() > deadline:
                    cls = "ctrlz_not_all_stopped" if name == "ctrlz" else "ctrlc_not_delivered"
                    raise Violation(cls, "%s of the foreground job %s did not receive the terminal signal (state %s)" % (
                        m.name, job.label(), st))
                time.sleep(0.0003)
            if name == "ctrlz":
                m.stopped = True
            else:
                self.mark_dead(m)
        self.wait_dirty = True
        hp = getattr(job, "helper_pid", None)
        if hp and self.truth_state_pid(hp) not in ("Z", "X"):
            deadline = time.time() + WATCHDOG
            want_h = "T" if name == "ctrlz" else "ZX"
            while self.truth_state_pid(hp) not in want_h + "ZX":
                if time.time() > deadline:
                    raise Violation("ctrlz_not_all_stopped" if name == "ctrlz" else "ctrlc_not_delivered",
                                    "the helper process inside the group of %s did not get the terminal signal" % job.label())
                time.sleep(0.0003)
        if name == "ctrlz" and len(job.members) >= 3:
            sim.probe("ctrlz_on_three_stage_pipeline")

    def truth_state_pid(self, pid):
        return proc_state(pid)

    def helper_resumed(self, job, what):
        hp = getattr(job, "helper_pid", None)
        if hp and self.truth_state_pid(hp) == "T":
            raise Violation("bg_not_resumed" if what == "bg" else "fg_not_resumed",
                            "after `%s` the helper process inside the group of %s is still stopped (the whole group has to be resumed)" % (
                                what, job.label()))

    def mark_dead(self, m):
        job = next((j for j in self.jobs if m in j.members), None)
        if job is not None and not m.dead and len(job.live()) == 1 and job.live()[0] is m \
                and not getattr(job, "substitution", False):
            # the job's last process is going: was the job in the background (launched with &, stopped, or bg'ed)?
            job.bg_at_death = job is not self.fg
        m.dead = True
        if m.pup is not None:
            m.pup.alive = False
            m.pup.close()
        self.sim.children[m.pid] = {"kind": "dead"}

    def member_exit(self, m, job):
        sim = self.sim
        sim.ev("exit", m.name, m.code)
        m.pup.rpc("exit %d" % m.code)
        sim.wait_state(m.pid, "ZX", "puppet exit")
        self.mark_dead(m)
        self.wait_dirty = True

    def event_op(self, op, in_wait=False):
        sim = self.sim
        jobs = self.live_jobs()
        if not jobs:
            return
        job = jobs[op["job"] % len(jobs)]
        live = [m for m in job.live() if m.pup is not None]
        if not live:
            return
        m = live[op["member"] % len(live)]
        st = self.truth_state(m)
        if st in ("Z", "X"):
            return
        if op["op"] == "exit":
            if st == "T":
                return
            self.member_exit(m, job)
            if in_wait and job is not self.fg:
                sim.probe("background_job_member_dies_while_another_is_in_front")
            return
        sig = op["sig"]
        if sig == signal.SIGSTOP and getattr(job, "faulted", False):
            return      # (which group the later stages of such a line end up in is not prescribed)
        if sig == signal.SIGSTOP and getattr(job, "detached", False):
            # a member that left the job's process group cannot be reached by the shell's killpg(SIGCONT) any more:
            # stopping it would only show that, not a defect of `bg`/`fg`
            return
        if sig == signal.SIGCONT and st != "T":
            return
        if sig == signal.SIGSTOP and st == "T":
            return
        if st == "T" and sig not in (signal.SIGCONT, signal.SIGKILL):
            return
        sim.ev("signal", m.name, sig)
        sim.fault("signal_%d" % sig)
        os.kill(m.pid, sig)
        if sig == signal.SIGCONT:
            sim.wait_state(m.pid, "RSDZX", "continue")
            m.stopped = False
            if m.told_stopped:
                m.cont_untold = True
        elif sig == signal.SIGSTOP:
            sim.wait_state(m.pid, "TZX", "stop")
            m.stopped = True
        else:
            sim.wait_state(m.pid, "ZX", "kill")
            self.mark_dead(m)
        self.wait_dirty = True
        if not in_wait and self.sc.get("handler") and self.sc.get("settle_handler"):
            # each event at the prompt becomes a notice of its own (see Sim.wait_sigchld_handled)
            sim.wait_sigchld_handled()
            sim.probe("handler_took_the_event_before_the_next_one")

    def detach_op(self, op):
        """the only live member of a background job leaves its process group and session (setsid): the job's
        group vanishes although the job is alive -- a later `fg` cannot hand the terminal over"""
        job = self.job_by_slot(op["job"])
        if job is None or job is self.fg or len(job.live()) != 1 or job.live()[0].pup is None:
            return
        if getattr(job, "helper_pid", None):
            # with a grandchild still inside the group the group does not vanish: `fg` legitimately hands the
            # terminal over and waits for the member that left -- not the situation this step is about
            return
        m = job.live()[0]
        if self.truth_state(m) in ("T", "Z", "X") or m.pid == job.gid and False:
            return
        rep = m.pup.rpc("setsid").split()
        if rep[0] != "setsid" or int(rep[1]) < 0:
            # a group leader cannot call setsid
            return
        self.sim.ev("detach", m.name)
        self.sim.fault("member_left_its_group_setsid")
        job.detached = True

    def wait_result(self, kind, pid, val):
        if kind == "alive":
            self.wait_dirty = False
            return
        self.sim.ev("wait=", kind, self.sim.names.get(pid, "?"))
        for j in self.jobs:
            for m in j.members:
                if m.pid == pid:
                    m.told_stopped = kind == "stopped"
                    m.cont_untold = False

    # ------------------------------------------------------------------ end of session
    def finish(self):
        """everything dies, an empty line lets the shell notice, `jobs` must be empty, then exit"""
        sim = self.sim
        if not self.finishing:
            self.finishing = True
            self.finish_stage = 0
        if self.finish_stage == 0:
            for j in self.live_jobs():
                for m in j.live():
                    if self.truth_state(m) not in ("Z", "X"):
                        try:
                            os.kill(m.pid, signal.SIGKILL)
                        except OSError:
                            pass
                        sim.wait_state(m.pid, "ZX", "final kill")
                    self.mark_dead(m)
            for j in self.jobs:
                hp = getattr(j, "helper_pid", None)
                if hp:
                    try:
                        os.kill(hp, signal.SIGKILL)
                    except OSError:
                        pass
            sim.ev("killall")
            self.finish_stage = 1
            self.shell.type_line("")
            self.typed_pending = True
            return
        if self.finish_stage == 1:
            self.finish_stage = 2
            self.jobs_query = True
            self.shell.set_mark()
            self.shell.type_line("jobs")
            self.typed_pending = True
            return
        if self.finish_stage == 2:
            self.finish_stage = 3
            for j in self.jobs:
                if j.gid is not None and getattr(j, "bg_at_death", False) and j.done_reports != 1:
                    raise Violation("done_report_count", "%s finished in the background (launched with &, stopped or "
                                    "resumed with bg) and was reported %d times" % (j.label(), j.done_reports))
            self.sim.probe("background_jobs_reported_once")
            self.shell.type_line("exit")
            self.typed_pending = True
            return
        raise HarnessError("shell still reading after exit")


def execute_case(sc, picks=None, rng=None, keep_log=False):
    return pbatch.execute(C07Runner, sc, picks, rng, keep_log)


CONFIGS = {
    "plain": ({"max_actions": 21}, 55),
    "handler": ({"max_actions": 21, "handler": True}, 20),
    "racy_launch": ({"max_actions": 12, "childpark": True}, 25),
}

TIERS = {"quick": 700, "thorough": 9000}


def make_case(seed, index):
    rng = Rng(seed, index)
    r = rng.below(100)
    acc = 0
    name = "plain"
    for k, (cfg, share) in CONFIGS.items():
        acc += share
        if r < acc:
            name = k
            break
    sc = gen_scenario(rng, CONFIGS[name][0])
    sc["config"] = name
    sc["adversarial_picks"] = 100000
    return sc, rng


def signature(v):
    preds = set()
    sc = v["scenario"]
    if sc.get("childpark"):
        preds.add("child_parked_after_fork")
    if sc.get("handler"):
        preds.add("handler_mode")
    return preds


def explicit_cases():
    """a terminal hand-over that fails (the job's group has vanished: its only live member called setsid),
    followed by ordinary job control, which must still work"""
    out = []
    for tail in (
            [{"op": "launch", "bg": False, "n": 2, "codes": [0, 0, 0]}, {"op": "ctrlz"}, {"op": "jobs"}, {"op": "fg", "job": 1}],
            [{"op": "launch", "bg": False, "n": 1, "codes": [0, 0, 0]}, {"op": "ctrlc"}, {"op": "launch", "bg": True, "n": 1, "codes": [0, 0, 0]}, {"op": "jobs"}],
            [{"op": "subst", "style": "word", "spelling": "dollar"}, {"op": "launch", "bg": False, "n": 3, "codes": [0, 0, 0]}, {"op": "ctrlz"}, {"op": "bg", "job": 1}, {"op": "jobs"}]):
        ops = [{"op": "launch", "bg": True, "n": 2, "codes": [0, 0, 0]},
               {"op": "exit", "job": 0, "member": 0},       # the group leader goes
               {"op": "empty"},
               {"op": "detach", "job": 0},                  # the remaining member leaves group and session
               {"op": "fg", "job": 0, "bare": False}] + tail
        for handler in (False, True):
            out.append({"prop": "C07", "ops": [dict(o) for o in ops], "handler": handler, "childpark": False, "lines": [],
                        "config": "explicit_failed_handover", "adversarial_picks": 100000})
    # the state `jobs` shows after (a) a member that was stopped alone -- and seen stopped -- is killed while the other
    # one runs, (b) a stop directly followed by a continuation (in handler mode two separate notices), (c) the same for
    # one member of two, then the other one stopped as well
    SIGSTOP, SIGCONT, SIGKILL = int(signal.SIGSTOP), int(signal.SIGCONT), int(signal.SIGKILL)
    def sig(member, s):
        return {"op": "sig", "job": 0, "member": member, "sig": s}
    sessions = [
        [{"op": "launch", "bg": True, "n": 2, "codes": [0, 0, 0]}, sig(0, SIGSTOP), {"op": "jobs"}, sig(0, SIGKILL), {"op": "jobs"},
         {"op": "empty"}, {"op": "jobs"}],
        [{"op": "launch", "bg": True, "n": 1, "codes": [0, 0, 0]}, sig(0, SIGSTOP), sig(0, SIGCONT), {"op": "jobs"}, {"op": "empty"},
         {"op": "jobs"}],
        [{"op": "launch", "bg": True, "n": 2, "codes": [0, 0, 0]}, sig(1, SIGSTOP), sig(1, SIGCONT), {"op": "jobs"}, sig(0, SIGSTOP),
         {"op": "jobs"}, sig(1, SIGSTOP), {"op": "jobs"}, {"op": "bg", "job": 0, "bare": False}, {"op": "jobs"}],
    ]
    # inside one foreground wait: a member stopped and continued from outside (each seen by the shell), then the other
    # one ends -- the shell has to go on waiting for the continued member
    S = {"op": "sync"}
    sessions.append([{"op": "launch", "bg": False, "n": 2, "codes": [0, 0, 0]}, sig(0, SIGSTOP), S, sig(0, SIGCONT), S,
                     {"op": "exit", "job": 0, "member": 1}, S, {"op": "jobs"}])
    sessions.append([{"op": "launch", "bg": False, "n": 3, "codes": [0, 0, 0]}, sig(2, SIGSTOP), S, sig(2, SIGCONT), S,
                     sig(0, SIGSTOP), S, sig(1, SIGSTOP), S, {"op": "jobs"}])
    sessions.append([{"op": "launch", "bg": False, "n": 2, "codes": [0, 0, 0], "forkfail": True}, {"op": "jobs"},
                     {"op": "launch", "bg": True, "n": 1, "codes": [0, 0, 0]}, {"op": "jobs"}])
    sessions.append([{"op": "launch", "bg": True, "n": 1, "codes": [0, 0, 0]},
                     {"op": "launch", "bg": False, "n": 3, "codes": [0, 0, 0], "forkfail": True}, {"op": "jobs"},
                     {"op": "launch", "bg": True, "n": 2, "codes": [0, 0, 0]}, {"op": "jobs"}])
    for ops in sessions:
        for handler in (False, True):
            out.append({"prop": "C07", "ops": [dict(o) for o in ops], "handler": handler, "childpark": False, "lines": [],
                        "config": "explicit_job_states", "adversarial_picks": 100000, "settle_handler": True})
    return out


def run(args):
    return pbatch.run_check(
        prop="C07", args=args, runner=C07Runner, make_case=make_case, runs=TIERS[args["tier"]],
        extra_cases=explicit_cases(),
        rule="one evaluation = one simulated interactive session on a pty: 5..25 actions from {launch fg/bg pipeline of 1..3 "
             "puppets, Ctrl-Z, Ctrl-C, fg [id], bg [id], external SIGKILL/SIGSTOP/SIGCONT/SIGTERM to a member, member exit, "
             "jobs, empty line, command not found, back-quote substitution}, the shell parked at prompt / fork / wait hooks, "
             "typed only while it reads the terminal in raw mode; in one configuration every forked child is parked too and "
             "the scheduler decides whether child or parent runs first; distinct = distinct canonical event-log hashes among "
             "sessions that launched at least one job",
        nontrivial=lambda sc, res: res["probes"].get("launch_fg", 0) + res["probes"].get("launch_bg", 0) >= 1,
        signature=signature,
        components={
            "real": ["cicada binary on a real pty: main loop, lineread, run_pipeline (setpgid, give_terminal_to), wait_fg_job, "
                     "try_wait_bg_jobs, fg/bg/jobs builtins, job notifications", "Linux kernel: tty line discipline, process "
                     "groups, job-control signals"],
            "stub": ["external programs are puppets (exit when told; stopped/killed by real signals)",
                     "blocking waitpid executed as park + WNOHANG", "forked children optionally parked right after fork()"],
        },
        assumptions=[
            "bare `fg`/`bg` are typed only when exactly one job exists (their choice among several jobs is HashMap order)",
            "`jobs` output is parsed leniently ([id] pgid Status); a format change is a harness error, not a violation",
        ],
    )
