"""Engine P batches: generate seeded scenarios, execute them in parallel worker
processes, shrink and replay violations, write evidence."""
import copy
import json
import multiprocessing
import os
import sys
import time

import common
from common import log
from psim import HarnessError, Rng, Schedule, Violation


def strip(sc):
    """scenario without run-time annotations (keys starting with '_')"""
    if isinstance(sc, dict):
        return {k: strip(v) for k, v in sc.items() if not (isinstance(k, str) and k.startswith("_"))}
    if isinstance(sc, list):
        return [strip(x) for x in sc]
    return sc


def execute(cls, sc, picks=None, rng=None, keep_log=False):
    sc = copy.deepcopy(strip(sc))
    drain_after = sc.get("adversarial_picks")
    sched = Schedule(rng=rng, picks=picks, drain_after=drain_after if picks is None else None)
    r = cls(sc, sched, keep_log)
    vio = None
    try:
        r.run()
    except Violation as v:
        vio = {"class": v.cls, "detail": v.detail}
    return {"violation": vio, "hash": r.sim.log_hash(), "log": r.sim.log if keep_log else None,
            "picks": list(sched.taken), "probes": dict(r.sim.probes), "faults": dict(r.sim.faults),
            "steps": r.sim.steps, "sim_clock": r.sim.clock - 1_700_000_000.0, "clock_reads": r.sim.clock_reads}


def execute_retry(cls, sc, picks=None, rng_factory=None, keep_log=False):
    """a watchdog expiry (harness error) is re-run once; only a repeat is reported"""
    try:
        return execute(cls, sc, picks, rng_factory() if rng_factory else None, keep_log)
    except HarnessError as e:
        log("[retry] harness error, re-running once: %s" % e)
        try:
            return execute(cls, sc, picks, rng_factory() if rng_factory else None, keep_log)
        except HarnessError as e2:
            if str(e2).startswith("watchdog:") and str(e).startswith("watchdog:"):
                # twice in a row no actor made progress for the whole watchdog period: the system hangs
                return {"violation": {"class": "no_progress", "detail": str(e2)[:300]}, "hash": "watchdog",
                        "log": None, "picks": [], "probes": {}, "faults": {}, "steps": 0, "no_shrink": True}
            raise


# ---------------------------------------------------------------- shrinking

def same_class(res, cls_name):
    return res["violation"] is not None and res["violation"]["class"] == cls_name


def shrink(runner, sc, picks, cls_name, budget=160):
    """ddmin-style: schedule first, then structure, then arguments; a candidate is
    accepted only if the same violation class reproduces."""
    cur_sc, cur_picks = strip(sc), list(picks)
    state = {"budget": budget}

    def attempt(csc, cpicks):
        if state["budget"] <= 0:
            return False
        state["budget"] -= 1
        try:
            r = execute(runner, csc, cpicks)
        except Exception:
            return False
        return same_class(r, cls_name)

    # 1. schedule: shorter prefixes (the drain policy finishes the run)
    for ln in (0, len(cur_picks) // 4, len(cur_picks) // 2, (3 * len(cur_picks)) // 4):
        if ln < len(cur_picks) and attempt(cur_sc, cur_picks[:ln]):
            cur_picks = cur_picks[:ln]
            break
    # 2. structure
    changed = True
    while changed and state["budget"] > 0:
        changed = False
        for cand in runner.reductions(cur_sc):
            if attempt(cand, cur_picks):
                cur_sc = cand
                changed = True
                break
    # 3. schedule again: drop chunks, zero entries
    chunk = max(1, len(cur_picks) // 2)
    while chunk >= 1 and state["budget"] > 0 and cur_picks:
        i = 0
        while i < len(cur_picks) and state["budget"] > 0:
            cand = cur_picks[:i] + cur_picks[i + chunk:]
            if attempt(cur_sc, cand):
                cur_picks = cand
            else:
                i += chunk
        if chunk == 1:
            break
        chunk //= 2
    for i in range(len(cur_picks)):
        if cur_picks[i] != 0 and state["budget"] > 0:
            cand = list(cur_picks)
            cand[i] = 0
            if attempt(cur_sc, cand):
                cur_picks = cand
    return cur_sc, cur_picks


# ---------------------------------------------------------------- workers

_G = {}


def _init(runner, make_case, seed, extra_cases):
    _G["runner"] = runner
    _G["make_case"] = make_case
    _G["seed"] = seed
    _G["extra"] = extra_cases
    sys.stdout = open(os.devnull, "w")


def _case(index):
    if index < 0:
        sc = _G["extra"][-index - 1]
        return copy.deepcopy(sc), (lambda: Rng(_G["seed"], 1 << 40 | (-index)))
    sc, _ = _G["make_case"](_G["seed"], index)

    def fac():
        return _G["make_case"](_G["seed"], index)[1]
    return sc, fac


def _work(job):
    index, want_shrink = job
    runner = _G["runner"]
    sc, fac = _case(index)
    t0 = time.time()
    try:
        res = execute_retry(runner, sc, None, fac)
    except HarnessError as e:
        return {"index": index, "harness_error": str(e)}
    except Exception:
        import traceback
        return {"index": index, "harness_error": "exception in the harness:\n" + traceback.format_exc()}
    out = {"index": index, "hash": res["hash"], "steps": res["steps"], "probes": res["probes"],
           "faults": res["faults"], "violation": res["violation"], "npicks": len(res["picks"]),
           "config": sc.get("config", "extra" if index < 0 else ""), "wall": time.time() - t0,
           "sim_clock": res.get("sim_clock", 0.0), "clock_reads": res.get("clock_reads", 0),
           "nontrivial": bool(_G.get("nontrivial", lambda a, b: True)(sc, res))}
    if index % 997 == 3 or index in (0, 1):
        out["sample"] = {"scenario": strip(sc), "picks": res["picks"][:200]}
    if res["violation"] is not None and res.get("no_shrink"):
        out["replay"] = {"property": runner.prop, "engine": "psim", "seed": _G["seed"], "run_index": index,
                         "scenario": strip(sc), "picks": [], "violation": res["violation"], "log_hash": "watchdog",
                         "replay_stable": True, "note": "watchdog expired twice; replay with the generating seed"}
    elif res["violation"] is not None and want_shrink:
        cls_name = res["violation"]["class"]
        try:
            # the recorded picks must replay to the same verdict before shrinking
            r0 = execute(runner, sc, res["picks"], None, False)
            faithful = same_class(r0, cls_name) and r0["hash"] == res["hash"]
            if faithful:
                ssc, spicks = shrink(runner, sc, res["picks"], cls_name)
            else:
                ssc, spicks = strip(sc), res["picks"]
            r1 = execute(runner, ssc, spicks, None, True)
            r2 = execute(runner, ssc, spicks, None, False)
            stable = faithful and same_class(r1, cls_name) and r1["hash"] == r2["hash"]
            out["replay"] = {"property": runner.prop, "engine": "psim", "seed": _G["seed"], "run_index": index,
                             "scenario": ssc, "picks": spicks, "violation": r1["violation"] or res["violation"],
                             "log_hash": r1["hash"], "log": r1["log"], "replay_stable": stable,
                             "original_picks": len(res["picks"])}
        except Exception as e:
            out["replay"] = {"property": runner.prop, "engine": "psim", "seed": _G["seed"], "run_index": index,
                             "scenario": strip(sc), "picks": res["picks"], "violation": res["violation"],
                             "log_hash": res["hash"], "replay_stable": False, "shrink_error": repr(e)}
    return out


def run_pool(runner, make_case, seed, indices, extra_cases, nontrivial, workers=None, shrink_limit=24):
    workers = workers or common.NCPU
    _G["nontrivial"] = nontrivial
    ctx = multiprocessing.get_context("fork")
    results = []
    shrunk_by_class = {}
    with ctx.Pool(workers, initializer=_init, initargs=(runner, make_case, seed, extra_cases)) as pool:
        jobs = [(i, True) for i in indices]
        for r in pool.imap_unordered(_work, jobs, chunksize=2):
            results.append(r)
    results.sort(key=lambda r: r["index"])
    return results


def replay_file(runner, path):
    obj = json.load(open(path))
    res = execute(runner, obj["scenario"], obj["picks"], None, True)
    return obj, res


def run_check(prop, args, runner, make_case, runs, rule, nontrivial, components, assumptions,
              extra_cases=(), signature=None, double_run=None):
    tier, seed = args["tier"], args["seed"]
    if args["runs"]:
        runs = args["runs"]
    if args["build"]:
        common.build_cicada_hooks()
        common.build_pup()
    if args["replay"]:
        obj, res = replay_file(runner, args["replay"])
        for l in res["log"] or []:
            print(l)
        if res["violation"]:
            print("REPRODUCED class=%s detail=%s" % (res["violation"]["class"], res["violation"]["detail"]))
            if obj.get("log_hash") and obj["log_hash"] != res["hash"]:
                print("note: event-log hash differs from the recorded one")
            print("VIOLATION property=%s replay=%s" % (prop, args["replay"]))
            return 1
        print("NOT-REPRODUCED (no violation)")
        return 0
    t0 = time.time()
    extra_cases = list(extra_cases)
    indices = [-(i + 1) for i in range(len(extra_cases))] + list(range(runs))
    results = run_pool(runner, make_case, seed, indices, extra_cases, nontrivial, args["workers"])
    harness = [r for r in results if "harness_error" in r]
    if harness:
        raise HarnessError("%d runs hit a harness error twice, first: index %d: %s" % (
            len(harness), harness[0]["index"], harness[0]["harness_error"]))
    # determinism: a prefix of the indices again, different pool geometry
    dr = double_run if double_run is not None else (60 if tier == "quick" else 400)
    if os.environ.get("VERIF_DOUBLE_RUN"):
        dr = int(os.environ["VERIF_DOUBLE_RUN"])
    dr_idx = [i for i in indices if i >= 0][:dr]
    again = run_pool(runner, make_case, seed, dr_idx, extra_cases, nontrivial, max(1, (args["workers"] or common.NCPU) // 2 - 1))
    first = {r["index"]: r["hash"] for r in results}
    divergent = [r["index"] for r in again if "hash" in r and first.get(r["index"]) != r["hash"]]
    if os.environ.get("VERIF_TEST_DIVERGENT"):     # (self-test of the reporting path only)
        divergent = [int(x) for x in os.environ["VERIF_TEST_DIVERGENT"].split(",")]
    wall = time.time() - t0
    # aggregate
    probes, faults, classes, configs = {}, {}, {}, {}
    runs_with_probe = {}
    distinct = set()
    steps = 0
    sim_clock = 0.0
    samples = []
    vios = []
    for r in results:
        steps += r["steps"]
        sim_clock += r.get("sim_clock", 0.0)
        for k, v in r["probes"].items():
            probes[k] = probes.get(k, 0) + v
            runs_with_probe[k] = runs_with_probe.get(k, 0) + 1
        for k, v in r["faults"].items():
            faults[k] = faults.get(k, 0) + v
        configs[r["config"]] = configs.get(r["config"], 0) + 1
        if r["nontrivial"]:
            distinct.add(r["hash"])
        if "sample" in r and len(samples) < 3 and r["violation"] is None:
            samples.append(r["sample"])
        if r["violation"] is not None:
            c = r["violation"]["class"]
            classes[c] = classes.get(c, 0) + 1
            if "replay" in r:
                vios.append(r["replay"])
    if not samples:
        samples = [r["sample"] for r in results if "sample" in r][:1]
    log("[psim] %s: %d runs (%d explicit), %d steps, %.1fs, %d distinct logs, violations=%s" % (
        prop, len(results), len(extra_cases), steps, wall, len(distinct), classes))
    findings = common.load_findings()
    unlisted = 0
    known_printed = set()
    per_class = {}
    vios.sort(key=lambda v: (v["violation"]["class"], len(v["picks"]) + 10 * len(v["scenario"].get("lines", [])), v["run_index"]))
    for v in vios:
        c = v["violation"]["class"]
        preds = signature(v) if signature else set()
        f = common.match_finding(findings, prop, c, preds)
        if f is not None:
            key = (f.get("class"), f.get("pred", ""))
            if key not in known_printed:
                known_printed.add(key)
                path = common.save_replay(prop, "known-%s-%s-%s" % (c, seed, v["run_index"]), v)
                print("KNOWN-FINDING: property=%s %s (replay=%s)" % (prop, f["text"], path))
            continue
        unlisted += 1
        per_class[c] = per_class.get(c, 0) + 1
        if per_class[c] > 2:
            continue
        path = common.save_replay(prop, "%s-%s-%s" % (c, seed, v["run_index"]), v)
        print("VIOLATION property=%s replay=%s" % (prop, path))
        if not v.get("replay_stable", False):
            print("  note: this run did not replay identically -- the system under test does not behave "
                  "deterministically under this schedule (its outcome depends on something the simulator does not control)")
        print("  class=%s detail=%s" % (c, v["violation"]["detail"]))
        print("  preds=%s lines=%s" % (",".join(sorted(preds)), [(l.get("text") or "")[:90] for l in v["scenario"].get("lines", [])]))
    coverage = {
        "evaluations": len(results),
        "distinct_nontrivial": len(distinct),
        "rule": rule,
        "samples": samples,
        "steps": steps,
        "runs_per_hour": int(len(results) / max(wall, 1e-6) * 3600),
        "simulated_seconds": round(sim_clock, 3),
        "faults_fired": faults,
        "probes": probes,
        "runs_reaching_probe": runs_with_probe,
        "configurations": configs,
        "determinism": {"seeds_double_run": len(again), "divergent": len(divergent)},
        "violation_classes_seen": classes,
        "explicit_cases": len(extra_cases),
        "components": components,
    }
    common.write_evidence(prop, tier, seed, coverage, wall, sum(classes.values()), assumptions)
    if unlisted:
        return 1
    if divergent:
        # two executions of one run index gave different event logs: keep both logs of a third and fourth execution
        # for diagnosis
        try:
            diag = diagnose_divergence(runner, make_case, seed, divergent[:5], extra_cases, prop)
        except Exception as e:   # diagnosis only
            diag = "diagnosis failed: %r" % (e,)
        tolerated = max(1, len(again) // 50)
        if len(divergent) > tolerated:
            # no violation to report, but the harness does not replay: it cannot be trusted
            raise HarnessError("determinism self-check failed for run indices %s (%s)" % (divergent[:10], diag))
        log("WARNING: determinism: run index %s gave two different event logs in two executions (%d of %d double-run "
            "indices; tolerated up to %d; %s)" % (divergent, len(divergent), len(again), tolerated, diag))
    return 0


def diagnose_divergence(runner, make_case, seed, indices, extra_cases, prop):
    _init(runner, make_case, seed, list(extra_cases))
    sys.stdout = sys.__stdout__
    out = []
    d = os.path.join(common.replay_dir(), prop)
    os.makedirs(d, exist_ok=True)
    for idx in indices:
        try:
            sc, fac = _case(idx)
            a = execute_retry(runner, sc, None, fac, True)
            b = execute_retry(runner, sc, None, fac, True)
            path = os.path.join(d, "nondeterministic-%s-%s.json" % (seed, idx))
            first = None
            la, lb = a["log"] or [], b["log"] or []
            for i, (x, y) in enumerate(zip(la, lb)):
                if x != y:
                    first = i
                    break
            with open(path, "w") as f:
                json.dump({"index": idx, "seed": seed, "hash_a": a["hash"], "hash_b": b["hash"], "first_difference": first,
                           "log_a": la, "log_b": lb, "scenario": strip(sc)}, f, indent=1)
            out.append("%s: third/fourth execution %s, logs in %s" % (idx, "agree" if a["hash"] == b["hash"] else "differ", path))
        except Exception as e:   # diagnosis only
            out.append("%s: %r" % (idx, e))
    return "; ".join(out)
