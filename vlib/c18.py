"""C18 -- history stores every submitted line verbatim, durably and injection-free (scoped).

Several interactive shells (each on its own pty, parked at its hooks) and
`cicada -c 'history ...'` one-shots share one sqlite file; the simulator
serialises every step, owns the clock all shells read, kills shells at park
points and restarts them. An independent sqlite client is the oracle."""
import os
import re
import shutil
import signal
import sqlite3
import subprocess
import tempfile
import time

import common
import pbatch
from common import CICADA_BIN, reset_signal_state
from psim import WATCHDOG, HarnessError, Rng, Sim, Violation, proc_state, proc_syscall
from ptyrun import PtyShell

PLAIN = "abcdefghijklmnopqrstuvwxyzABCDEFGHIJKLMNOPQRSTUVWXYZ0123456789"
# (East-Asian wide characters are not typed: lineread 0.7.2 -- a dependency, outside the repository --
# panics on them in builds with overflow checks; multi-byte coverage uses single-width characters)
HOSTILE = ["%", "_", "--", ")", ",", "ü", "ñ", "é", "%%", "\\\\", "=", "@", "+", ".", "/"]
DIRS = ["plain", "it's", "100%", "a_b", "semi;colon", "par)en", "sp ace", "dash--dash", "ünï", "q\"uote", "back\\slash"]


def gen_word(rng, n=None, hostile=40):
    n = n if n is not None else 1 + rng.below(8)
    out = []
    for _ in range(n):
        if rng.chance(hostile):
            out.append(rng.choice(HOSTILE))
        else:
            out.append(PLAIN[rng.below(len(PLAIN))])
    return "".join(out)


def gen_long(rng, prefix):
    """a text of 250..1200 bytes with two-byte characters placed around the 256-byte mark (and elsewhere): whatever
    fixed-size buffer or cut a listing applies, it lands inside a character for some of these"""
    target = rng.choice([250, 255, 256, 257, 258, 300, 600, 1200])
    out = prefix
    while len(out.encode()) < target:
        n = len(out.encode())
        if 250 <= n <= 258 and rng.chance(70):
            out += rng.choice(["é", "ü", "ñ"])
        elif rng.chance(4):
            out += rng.choice(["é", "ü", "ñ", "%", "_"])
        else:
            out += PLAIN[rng.below(len(PLAIN))]
    return out


def gen_line(rng, k):
    """a command line that runs inside the shell (an assignment), with quoted segments"""
    parts = ["H%d=" % k, gen_word(rng)]
    for _ in range(rng.below(3)):
        q = rng.below(100)
        if q < 40:
            inner = gen_word(rng) + rng.choice(["", " ", " ; ", '"', " -- "]) + gen_word(rng, 2)
            parts.append("'" + inner.replace("'", "") + "'")
        elif q < 70:
            inner = gen_word(rng) + rng.choice(["", " ", "'", "''", " ) "]) + gen_word(rng, 2)
            parts.append('"' + inner.replace('"', "").replace("\\", "") + '"')
        else:
            parts.append(gen_word(rng, 3))
    return "".join(parts)


def gen_text(rng):
    """free text for `history add` (any character of the alphabet, spaces allowed)"""
    w = [gen_word(rng, hostile=50) for _ in range(1 + rng.below(3))]
    t = " ".join(w)
    if t.startswith("-"):
        t = "x" + t    # (a leading dash would be an option of the builtin, not text)
    if rng.chance(35):
        t += rng.choice(["'", " it's", "''", " 'q' ", ";", " -- x", "\"d\""])
    return t.strip() or "x"


def shquote(text):
    """quote for cicada's tokenizer: double quotes unless the text contains one"""
    if '"' not in text and "\\" not in text and "`" not in text and "$" not in text:
        return '"' + text + '"'
    if "'" not in text:
        return "'" + text + "'"
    return None


def gen_scenario(rng, cfg):
    ops = []
    n = 4 + rng.below(cfg.get("max_ops", 14))
    k = 0
    for _ in range(n):
        r = rng.below(100)
        sh = rng.below(3)
        if r < 34:
            k += 1
            kind = rng.choice(["plain", "plain", "plain", "space", "repeat"])
            text = gen_line(rng, k)
            if kind == "plain" and rng.chance(12):
                # a line that starts no command is a submitted line all the same
                # (no trailing blank: recording trims the line's ends, which the statement does not forbid)
                text = ("# note %d %s" % (k, gen_word(rng, 3, hostile=60).replace("\\", ""))).strip()
            if kind == "plain" and cfg.get("long_texts") and rng.chance(30):
                text = gen_long(rng, "L%d=" % k)
            if cfg.get("repeat_texts") and rng.chance(50):
                text = "D%d=same" % rng.below(3)      # the same line submitted again later (not immediately)
            if kind == "space" and rng.chance(40):
                text = "B%d=!!" % k     # refers to the previous command; still must not be recorded
            elif kind == "space" and rng.chance(30):
                text = "source ../setvar.sh"     # runs other lines inside the shell; still must not be recorded
            ops.append({"op": "type", "shell": sh, "text": text, "kind": kind})
        elif r < 50:
            t = gen_text(rng)
            if cfg.get("long_texts") and rng.chance(40):
                t = gen_long(rng, "long %d " % k)
            if shquote(t) is None:
                t = t.replace("'", "")
            ts = None
            if rng.chance(45):
                ts = rng.choice([0.0, 5.0, 5.0, 1000.5, 1699999999.0, 1700000500.25])
                if rng.chance(8):
                    ts = rng.choice([1700000000000.0, 4.0e17])     # milliseconds / nonsense given for seconds
            ops.append({"op": "hadd", "shell": sh, "text": t, "ts": ts, "via": rng.choice(["shell", "shell", "oneshot"])})
        elif r < 58:
            ops.append({"op": "hdel", "shell": sh, "pick": [rng.below(50) for _ in range(1 + rng.below(2))]})
        elif r < 76:
            pat = ""
            if rng.chance(45):
                pat = rng.choice(["H", "%", "_", "a", "ü", ")", "1", "x%y", "'", "a'b"] if cfg.get("hostile_patterns", True)
                                 else ["H", "a", "1", "x%y"])
            ops.append({"op": "list", "asc": rng.chance(50), "pattern": pat, "limit": rng.choice([1000, 1000, 3]),
                        "dates": rng.chance(25)})
        elif r < 82:
            d = rng.choice(DIRS if cfg.get("hostile_dirs", True) else DIRS[:1])
            ops.append({"op": "cd", "shell": sh, "dir": d})
            if rng.chance(50):
                # work in that directory, then ask for its history
                k += 1
                ops.append({"op": "type", "shell": sh, "text": gen_line(rng, k), "kind": "plain"})
                ops.append({"op": "listp", "dir": d})
        elif r < 84:
            ops.append({"op": "listp", "dir": rng.choice(DIRS)})
        elif r < 88:
            if cfg.get("dedup") and rng.chance(50):
                # a shell starts (its duplicate purge runs) while another process holds the write lock and records a line
                # (with a line stored twice, so that the purge has something to do)
                k += 1
                d = "D%d=same" % rng.below(3)
                ops.append({"op": "type", "shell": sh, "text": d, "kind": "plain"})
                ops.append({"op": "type", "shell": sh, "text": gen_line(rng, k), "kind": "plain"})
                ops.append({"op": "type", "shell": sh, "text": d, "kind": "plain"})
                ops.append({"op": "lockstart"})
            else:
                ops.append({"op": "newshell"})
        elif r < 91:
            k += 2
            ops.append({"op": "overlap", "shell": sh, "other": sh + 1, "text": gen_line(rng, k - 1), "inner": gen_line(rng, k)})
        elif r < 95 and cfg.get("kills", True):
            ops.append({"op": "kill", "shell": sh, "at": rng.choice(["prompt", "done"])})
        elif r < 96:
            if rng.chance(50):
                ops.append({"op": "rmdb"})
            else:
                # fault: the shell's working directory is removed under it; what is typed there is recorded all the same
                k += 1
                ops.append({"op": "rmcwd", "shell": sh, "text": gen_line(rng, k)})
        elif r < 97:
            k += 1
            ops.append({"op": "locked", "shell": sh, "text": gen_line(rng, k)})
        else:
            ops.append({"op": "clock", "jump": rng.choice([1e-6, 0.5, 3600.0, 86400.0 * 30])})
    return {"prop": "C18", "ops": ops, "dedup": bool(cfg.get("dedup")), "lines": []}


def like(pattern, text):
    """SQLite LIKE '%pattern%' (ASCII case-insensitive, % and _ wildcards)"""
    rx = ""
    for ch in "%" + pattern + "%":
        if ch == "%":
            rx += ".*"
        elif ch == "_":
            rx += "."
        else:
            rx += re.escape(ch)
    flags = re.S
    # sqlite folds case for ASCII only
    return re.fullmatch(rx, text, flags | re.I) is not None if all(ord(c) < 128 for c in pattern) else \
        re.fullmatch(rx, text, flags) is not None


class Shell:
    def __init__(self, idx, sim, pty):
        self.idx = idx
        self.sim = sim
        self.pty = pty
        self.prev = None          # last recorded line of this process (immediate-repeat rule)
        self.unrecorded_since = False
        self.cwd = None
        self.alive = True
        self.state = "start"


class C18Runner:
    prop = "C18"

    def __init__(self, scenario, sched, keep_log=True):
        self.sc = scenario
        self.sched = sched
        self.keep_log = keep_log
        self.root = tempfile.mkdtemp(prefix="c18-", dir=os.environ.get("TMPDIR") or "/tmp")
        self.hfile = os.path.join(self.root, "hist", "history.sqlite")
        self.dirs = os.path.join(self.root, "dirs")
        os.makedirs(self.dirs)
        for d in DIRS:
            os.makedirs(os.path.join(self.dirs, d), exist_ok=True)
        with open(os.path.join(self.dirs, "setvar.sh"), "w") as f:
            f.write("SV=1\nSW=2\n")
        self.shells = []
        self.rows = []            # model: dicts {text, tsb, seq, rowid}
        self.seq = 0
        self.clock = 1_700_000_000.0
        self.clock0 = self.clock
        self.sim = None           # "main" sim used for the canonical log, probes, faults
        self.maybe = []           # rows that may or may not exist (shell killed before it returned to the prompt)
        self.result = {}

    @classmethod
    def reductions(cls, sc):
        import copy
        ops = sc["ops"]
        n = len(ops)
        if n > 1:
            for a, b in ((n // 2, n), (0, n // 2)):
                c = copy.deepcopy(sc)
                del c["ops"][a:b]
                yield c
        for i in range(n - 1, -1, -1):
            c = copy.deepcopy(sc)
            del c["ops"][i]
            yield c

    # ------------------------------------------------------------------ plumbing
    def ev(self, *a):
        self.sim.ev(*a)

    def tick(self):
        self.clock += 1e-3
        return self.clock

    TZS = ["UTC0", "JST-9", "EST5", "IST-5:30", "NPT-5:45"]

    def shell_env(self, idx):
        env = {"HISTORY_FILE": self.hfile, "HISTORY_DELETE_DUPS": "1" if self.sc.get("dedup") else "0"}
        if self.sc.get("real_clock_tz"):
            # no simulated clock: the shells read the real one, each in another time zone; steps are
            # serialised, so real time is strictly increasing along the submissions
            env["TZ"] = self.TZS[idx % len(self.TZS)]
        else:
            env["CICADA_VERIF_CLOCK"] = "1"
        return env

    def start_shell(self):
        idx = len(self.shells)
        sim = Sim(self.sched, self.keep_log) if self.sim is not None else None
        if sim is None:
            sim = Sim(self.sched, self.keep_log)
            self.sim = sim
        env = self.shell_env(idx)
        pty = PtyShell(sim, env_extra=env, cwd=os.path.join(self.dirs, "plain"))
        sh = Shell(idx, sim, pty)
        sh.cwd = os.path.join(self.dirs, "plain")
        self.shells.append(sh)
        self.ev("start-shell", idx)
        self.to_prompt(sh, first=True)
        return sh

    def pump(self, sh, until):
        """serve the shell's hook messages until `until(msg)`; clock reads get strictly increasing answers"""
        sim = sh.sim
        while True:
            ev = sim.shell_event(tty_idle=(until == "tty"))
            if ev[0] == "dead":
                sh.alive = False
                raise Violation("recording_failed", "shell %d exited unexpectedly with status %s" % (sh.idx, ev[1]))
            if ev[0] == "tty":
                if until == "tty" and sh.pty.raw_mode():
                    return ev
                continue
            if ev[0] == "blocked":
                if until == "tty" and ev[1] == "read" and sh.pty.raw_mode():
                    return ("tty",)
                continue
            msg = ev[1]
            w = msg.split()
            if w[0] == "now?":
                sim.clock_reads += 1
                sim.shell_go("t %.6f" % self.tick())
                continue
            if until != "tty" and until(w):
                return ev
            if w[0] in ("hello", "pipe?", "fork?", "fork!", "wait?", "wait=", "done", "prompt"):
                if w[0] == "fork=":
                    pass
                sim.shell_go()
                continue
            if w[0] == "fork=":
                pid = int(w[1])
                sim.children[pid] = {"kind": "free"}
                sim.shell_go()
                continue
            raise HarnessError("unexpected message %r" % msg)

    def to_prompt(self, sh, first=False):
        """let the shell run until it is reading the terminal at its prompt"""
        self.pump(sh, lambda w: w[0] == "prompt")
        sh.sim.shell_go()
        self.pump(sh, "tty")
        sh.state = "reading"

    def type_and_run(self, sh, line, kill_at=None):
        """type a line; returns 'prompt' when the shell is reading again, 'killed' when it was killed on the way"""
        sh.pty.type_line(line)
        if kill_at == "done":
            self.pump(sh, lambda w: w[0] == "done")
            self.kill_shell(sh)
            return "killed"
        self.pump(sh, lambda w: w[0] == "prompt")
        if kill_at == "prompt":
            self.kill_shell(sh)
            return "killed"
        sh.sim.shell_go()
        self.pump(sh, "tty")
        return "prompt"

    def kill_shell(self, sh):
        os.kill(sh.pty.pid, signal.SIGKILL)
        deadline = time.time() + WATCHDOG
        while sh.sim.shell_reap() is None:
            if time.time() > deadline:
                raise HarnessError("killed shell does not die")
            time.sleep(0.0005)
        sh.alive = False
        self.sim.fault("shell_sigkill")
        self.ev("kill-shell", sh.idx)

    def restart(self, sh):
        i = sh.idx
        if sh.sim is not self.sim:
            sh.sim.close()
        sim = Sim(self.sched, False)
        env = self.shell_env(i)
        pty = PtyShell(sim, env_extra=env, cwd=os.path.join(self.dirs, "plain"))
        new = Shell(i, sim, pty)
        new.cwd = os.path.join(self.dirs, "plain")
        self.shells[i] = new
        self.extra_sims.append(sim)
        self.ev("restart-shell", i)
        self.to_prompt(new, first=True)
        self.model_dedupe()
        return new

    # ------------------------------------------------------------------ oracle
    def model_dedupe(self):
        """what an interactive shell does to the file when it starts (unless HISTORY_DELETE_DUPS=0):
        of several rows with the same text only the newest is kept"""
        if not self.sc.get("dedup"):
            return
        last = {}
        for r in self.rows:
            last[r["text"]] = r
        before = len(self.rows)
        for r in self.rows:
            if last[r["text"]] is not r and r.get("rowid") is not None:
                self.used_rowids.discard(r["rowid"])     # (sqlite hands out max(rowid)+1: a freed top number comes back)
        self.rows = [r for r in self.rows if last[r["text"]] is r]
        if len(self.rows) != before:
            self.sim.probe("duplicates_purged_at_shell_start")
        self.check_db("the duplicate purge of a starting shell")

    def db_rows(self):
        if not os.path.exists(self.hfile):
            return []
        con = sqlite3.connect("file:%s?mode=ro" % self.hfile, uri=True, timeout=5)
        try:
            try:
                cur = con.execute("SELECT rowid, inp, tsb FROM cicada_history ORDER BY rowid")
            except sqlite3.OperationalError:
                return []
            return [(r[0], r[1], r[2]) for r in cur.fetchall()]
        finally:
            con.close()

    def check_db(self, what):
        got = self.db_rows()
        got_texts = [(r[1]) for r in got]
        want = [r["text"] for r in self.rows]
        # rows that may or may not have been recorded (shell killed in between) are resolved now
        if self.maybe:
            for cand in list(self.maybe):
                n_have = got_texts.count(cand["text"])
                n_want = want.count(cand["text"])
                if n_have == n_want + 1:
                    self.rows.append(cand)
                    want.append(cand["text"])
                    self.sim.probe("line_recorded_although_shell_killed_before_prompt")
                elif n_have == n_want:
                    self.sim.probe("line_lost_with_shell_killed_before_recording")
                self.maybe.remove(cand)
        if sorted(got_texts) != sorted(want):
            missing = [t for t in want if got_texts.count(t) < want.count(t)]
            extra = [t for t in got_texts if want.count(t) < got_texts.count(t)]
            if missing:
                near = [g for g in got_texts if g not in want]
                if near:
                    raise Violation("row_text_mismatch", "after %s: the database holds %r where %r was submitted" % (
                        what, near[0][:80], missing[0][:80]))
                raise Violation("row_missing", "after %s: the submitted line %r is not in the database" % (what, missing[0][:80]))
            if any(got_texts.count(t) > 1 and want.count(t) < got_texts.count(t) and want.count(t) >= 1 for t in extra):
                raise Violation("row_duplicated", "after %s: %r is stored more often than it was submitted" % (what, extra[0][:80]))
            raise Violation("wrong_row_deleted" if "delete" in what else "row_duplicated",
                            "after %s: unexpected row %r in the database" % (what, extra[0][:80]))
        # attach rowids (in insertion order per text)
        pool = {}
        for rid, text, tsb in got:
            pool.setdefault(text, []).append((rid, tsb))
        for r in self.rows:
            if r.get("rowid") is None:
                cands = [c for c in pool.get(r["text"], []) if c[0] not in self.used_rowids]
                if cands:
                    r["rowid"], r["tsb_db"] = cands[0]
                    self.used_rowids.add(cands[0][0])

    def expected_listing(self, asc, pattern, limit):
        rows = [r for r in self.rows if (not pattern or like(pattern, r["text"]))]
        # the listing is ordered by the stored start time; among equal stamps by submission
        rows.sort(key=lambda r: (r["tsb"], r["seq"]))
        if asc:
            rows = rows[:limit]
        else:
            rows = rows[-limit:] if limit < len(rows) else rows
        return [r["text"] for r in rows]

    def run_oneshot(self, args_line, cwd=None):
        env = dict(os.environ)
        env.update({"HISTORY_FILE": self.hfile, "HOME": self.root, "PATH": "/usr/bin:/bin", "HISTORY_DELETE_DUPS": "0"})
        env.pop("CICADA_VERIF_CTL", None)
        p = subprocess.run([CICADA_BIN, "-c", args_line], cwd=cwd or os.path.join(self.dirs, "plain"), env=env,
                           stdin=subprocess.DEVNULL, stdout=subprocess.PIPE, stderr=subprocess.PIPE, timeout=WATCHDOG,
                           preexec_fn=reset_signal_state)
        return p.returncode, p.stdout.decode(errors="replace"), p.stderr.decode(errors="replace")

    # ------------------------------------------------------------------ main
    def run(self):
        self.extra_sims = []
        self.used_rowids = set()
        try:
            self.start_shell()
            for op in self.sc["ops"]:
                self.sim.steps += 1
                self.step(op)
            self.final()
            return self.result
        finally:
            for sh in self.shells:
                if sh.sim is not self.sim:
                    try:
                        sh.sim.close()
                    except Exception:
                        pass
            for s in self.extra_sims:
                try:
                    s.close()
                except Exception:
                    pass
            if self.sim is not None:
                self.sim.clock = 1_700_000_000.0 + (self.clock - self.clock0)
                self.sim.close()
            shutil.rmtree(self.root, ignore_errors=True)

    def shell_for(self, i):
        sh = self.shells[i % len(self.shells)]
        if not sh.alive:
            sh = self.restart(sh)
        return sh

    def add_row(self, text, tsb, maybe=False, cwd=None):
        self.seq += 1
        if self.sc.get("real_clock_tz") and tsb >= 1_700_000_000.0:
            tsb = 1_790_000_000.0 + self.seq       # typed now: later than any -t value, increasing
        row = {"text": text, "tsb": tsb, "seq": self.seq, "rowid": None,
               "dir": cwd or os.path.join(self.dirs, "plain")}
        if maybe:
            self.maybe.append(row)
        else:
            self.rows.append(row)
        return row

    def step(self, op):
        k = op["op"]
        if k == "newshell":
            if len(self.shells) < 3:
                sim = Sim(self.sched, False)
                env = self.shell_env(len(self.shells))
                pty = PtyShell(sim, env_extra=env, cwd=os.path.join(self.dirs, "plain"))
                sh = Shell(len(self.shells), sim, pty)
                sh.cwd = os.path.join(self.dirs, "plain")
                self.shells.append(sh)
                self.extra_sims.append(sim)
                self.ev("start-shell", sh.idx)
                self.to_prompt(sh, first=True)
                self.model_dedupe()
                self.sim.probe("second_or_third_shell_on_the_same_database")
            return
        if k == "lockstart":
            if not os.path.exists(self.hfile) or len(self.shells) >= 3:
                return
            con = sqlite3.connect(self.hfile, timeout=5, isolation_level=None)
            try:
                con.execute("BEGIN IMMEDIATE")
                table = con.execute("SELECT name FROM sqlite_master WHERE type='table'").fetchone()[0]
            except (sqlite3.OperationalError, TypeError):
                con.close()
                return
            text = "F%d=recorded-by-another-process" % (self.seq + 1)
            ts = self.tick()
            plain = os.path.join(self.dirs, "plain")
            con.execute("INSERT INTO %s (inp, rtn, tsb, tse, sessionid, info) VALUES (?,?,?,?,?,?)" % table,
                        (text, 0, ts, ts, "other-process", "dir:%s|" % plain))
            sim = Sim(self.sched, False)
            env = self.shell_env(len(self.shells))
            pty = PtyShell(sim, env_extra=env, cwd=plain)
            sh = Shell(len(self.shells), sim, pty)
            sh.cwd = plain
            self.shells.append(sh)
            self.extra_sims.append(sim)
            state = {"held": True}
            give_up = time.time() + 1.0

            def cb():
                # release once the starting shell sits in sqlite's busy handler (or after a second)
                if not state["held"]:
                    return
                sc_ = proc_syscall(sim.shell_pid)
                if (sc_ is not None and sc_[0] in (35, 230)) or time.time() >= give_up:
                    state["held"] = False
                    con.execute("COMMIT")
                    con.close()
            sim.idle_cb = cb
            self.ev("start-shell-while-locked", sh.idx)
            self.sim.fault("database_write_locked_while_a_shell_starts")
            try:
                self.to_prompt(sh, first=True)
            finally:
                sim.idle_cb = None
                if state["held"]:
                    state["held"] = False
                    con.execute("COMMIT")
                    con.close()
            self.add_row(text, ts, cwd=plain)
            self.model_dedupe()
            self.check_db("a shell starting while another process held the write lock and recorded a line")
            return
        if k == "locked":
            # fault: another process holds the write lock of the database for a moment (a quarter of a
            # second of real time; sqlite's busy handler of the recording shell has to ride it out)
            if not os.path.exists(self.hfile):
                return
            sh = self.shell_for(op["shell"])
            if sh.prev == op["text"]:
                return
            con = sqlite3.connect(self.hfile, timeout=5, isolation_level=None)
            try:
                con.execute("BEGIN IMMEDIATE")
            except sqlite3.OperationalError:
                con.close()
                return
            release_at = time.time() + 0.25
            state = {"held": True}
            old_cb = sh.sim.idle_cb

            def cb():
                if old_cb:
                    old_cb()
                if state["held"] and time.time() >= release_at:
                    state["held"] = False
                    con.execute("COMMIT")
                    con.close()
            sh.sim.idle_cb = cb
            self.ev("type-while-locked", sh.idx, op["text"])
            self.sim.fault("database_write_locked_by_another_process")
            tsb_guess = self.clock + 1e-3
            try:
                self.type_and_run(sh, op["text"])
            finally:
                sh.sim.idle_cb = old_cb
                if state["held"]:
                    state["held"] = False
                    con.execute("COMMIT")
                    con.close()
            self.add_row(op["text"], tsb_guess, cwd=sh.cwd)
            sh.prev = op["text"]
            sh.unrecorded_since = False
            self.check_db("recording while another process held the write lock")
            return
        if k == "rmdb":
            # fault: the history file disappears while shells are running; what was in it is gone,
            # but every line submitted afterwards has to be recorded again
            if not os.path.exists(self.hfile):
                return
            os.unlink(self.hfile)
            for ext in ("-journal", "-wal", "-shm"):
                try:
                    os.unlink(self.hfile + ext)
                except OSError:
                    pass
            self.rows = []
            self.maybe = []
            self.used_rowids = set()
            self.ev("history-file-removed")
            self.sim.fault("history_file_removed")
            return
        if k == "clock":
            self.clock += op["jump"]
            self.ev("clock-jump", op["jump"])
            self.sim.probe("clock_jump")
            return
        if k == "type":
            sh = self.shell_for(op["shell"])
            text = op["text"]
            if op["kind"] == "repeat" and sh.prev is not None:
                text = sh.prev
            line = (" " + text) if op["kind"] == "space" else text
            self.ev("type", sh.idx, op["kind"], text)
            tsb_guess = self.clock + 1e-3   # the next clock read is the line's start stamp
            r = self.type_and_run(sh, line)
            if op["kind"] == "space":
                sh.unrecorded_since = True
                self.sim.probe("leading_space_line")
                self.check_db("a line with a leading space")
                return
            if sh.prev is not None and text == sh.prev:
                self.sim.probe("immediate_repeat")
                if sh.unrecorded_since:
                    # an unrecorded line sits between the two identical lines: both readings are accepted
                    self.add_row(text, tsb_guess, maybe=True, cwd=sh.cwd)
                self.check_db("an immediate repeat")
                return
            self.add_row(text, tsb_guess, cwd=sh.cwd)
            sh.prev = text
            sh.unrecorded_since = False
            self.check_db("typing a line in shell %d" % sh.idx)
            return
        if k == "hadd":
            text = op["text"]
            q = shquote(text)
            if q is None:
                return
            ts = op["ts"]
            cmd = "history add %s%s" % ("-t %s " % repr(ts) if ts is not None else "", q)
            self.ev("history-add", op["via"], text, ts)
            if op["via"] == "oneshot":
                if not os.path.exists(self.hfile):
                    self.sim.probe("history_add_into_missing_database")
                rc, out, err = self.run_oneshot(cmd)
                if rc != 0 or "error" in err.lower():
                    raise Violation("recording_failed", "`%s` in a fresh process failed: rc=%s %s" % (cmd[:60], rc, err.strip()[:120]))
            else:
                sh = self.shell_for(op["shell"])
                sh.pty.set_mark()
                self.type_and_run(sh, " " + cmd)
                sh.unrecorded_since = True
                out = sh.pty.text_since_mark()
                if "error" in out.lower():
                    raise Violation("recording_failed", "`%s` printed %r" % (cmd[:60], out.strip()[-120:]))
            self.add_row(text.strip(), ts if ts is not None else 0.0,
                         cwd=None if op["via"] == "oneshot" else sh.cwd)
            if ts is not None and any(r["tsb"] == ts for r in self.rows[:-1]):
                self.sim.probe("equal_timestamps")
            if ts is None and sum(1 for r in self.rows if r["tsb"] == 0.0) > 1:
                self.sim.probe("equal_timestamps")
            self.check_db("history add")
            return
        if k == "hdel":
            # (first: asking for the shell may restart a killed one, whose duplicate purge changes the rows)
            sh = self.shell_for(op["shell"])
            known = [r for r in self.rows if r.get("rowid") is not None]
            if not known:
                return
            victims = []
            for p in op["pick"]:
                v = known[p % len(known)]
                if v not in victims:
                    victims.append(v)
            cmd = "history delete " + " ".join(str(v["rowid"]) for v in victims)
            self.ev("history-delete", [v["seq"] for v in victims])
            self.type_and_run(sh, " " + cmd)
            sh.unrecorded_since = True
            for v in victims:
                self.rows.remove(v)
                self.used_rowids.discard(v["rowid"])
            self.sim.probe("history_delete")
            self.check_db("history delete of rows %s" % [v["rowid"] for v in victims])
            return
        if k == "list":
            if not os.path.exists(self.hfile):
                return
            pat = op["pattern"]
            q = shquote(pat) if pat else ""
            if pat and q is None:
                return
            cmd = "history -n -l %d %s%s" % (op["limit"], "-a " if op["asc"] else "", q)
            if op.get("dates"):
                cmd = "history -d -l %d %s%s" % (op["limit"], "-a " if op["asc"] else "", q)
            self.ev("list", cmd)
            rc, out, err = self.run_oneshot(cmd.strip())
            if "error" in (out + err).lower() or "panicked" in err:
                raise Violation("listing_failed", "`%s` in a fresh process printed %r" % (cmd, (out + err).strip()[:160]))
            got = [l for l in out.split("\n")]
            if got and got[-1] == "":
                got.pop()
            if op.get("dates"):
                # "rowid: date: text" -- only the texts and their order are judged
                parsed = []
                for l in got:
                    parts = l.split(": ", 2)
                    if len(parts) != 3 or not parts[0].isdigit():
                        raise Violation("listing_failed", "`%s` printed a line that is not `id: date: text`: %r" % (cmd, l[:80]))
                    parsed.append(parts[2])
                got = parsed
                self.sim.probe("listing_with_dates_checked")
            want = self.expected_listing(op["asc"], pat, op["limit"])
            if not op["asc"] and False:
                pass
            if got != want:
                if sorted(got) == sorted(want):
                    raise Violation("order_mismatch", "`%s` lists %s, submission/time order is %s" % (
                        cmd, [g[:20] for g in got][:6], [w[:20] for w in want][:6]))
                raise Violation("listing_failed", "`%s` lists %d rows %s, expected %d rows %s" % (
                    cmd, len(got), [g[:20] for g in got][:5], len(want), [w[:20] for w in want][:5]))
            self.sim.probe("listing_in_fresh_process_checked")
            if pat:
                self.sim.probe("pattern_search_checked")
            return
        if k == "listp":
            if not os.path.exists(self.hfile):
                return
            d = os.path.join(self.dirs, op["dir"])
            cmd = "history -n -a -p -l 1000"
            self.ev("list-pwd", op["dir"])
            rc, out, err = self.run_oneshot(cmd, cwd=d)
            if "error" in (out + err).lower():
                raise Violation("listing_failed", "`%s` in directory %r printed %r" % (cmd, op["dir"], (out + err).strip()[:160]))
            got = out.split("\n")
            if got and got[-1] == "":
                got.pop()
            rows = [r for r in self.rows if like("dir:%s|" % d, "dir:%s|" % r["dir"])]
            rows.sort(key=lambda r: (r["tsb"], r["seq"]))
            want = [r["text"] for r in rows]
            if got != want:
                raise Violation("listing_failed", "`%s` in directory %r lists %d rows %s, expected %d rows %s" % (
                    cmd, op["dir"], len(got), [g[:16] for g in got][:5], len(want), [w[:16] for w in want][:5]))
            self.sim.probe("listing_by_directory_checked")
            if op["dir"] != "plain" and want:
                self.sim.probe("listing_by_hostile_directory_nonempty")
            return
        if k == "rmcwd":
            sh = self.shell_for(op["shell"])
            self.gone_n = getattr(self, "gone_n", 0) + 1
            d = os.path.join(self.dirs, "gone%d" % self.gone_n)
            os.mkdir(d)
            self.ev("cd-then-removed", sh.idx)
            self.type_and_run(sh, ' cd "%s"' % d)
            sh.unrecorded_since = True
            os.rmdir(d)
            self.sim.fault("working_directory_removed")
            text = op["text"]
            self.ev("type", sh.idx, "plain", text)
            tsb_guess = self.clock + 1e-3
            self.type_and_run(sh, text)
            if not (sh.prev is not None and text == sh.prev):
                self.add_row(text, tsb_guess, cwd=d)
                sh.prev = text
                sh.unrecorded_since = False
            self.check_db("typing a line in a removed working directory (shell %d)" % sh.idx)
            back = os.path.join(self.dirs, "plain")
            self.type_and_run(sh, ' cd "%s"' % back)
            sh.unrecorded_since = True
            sh.cwd = back
            return
        if k == "cd":
            sh = self.shell_for(op["shell"])
            d = os.path.join(self.dirs, op["dir"])
            q = shquote(d)
            if q is None:
                return
            self.ev("cd", sh.idx, op["dir"])
            self.type_and_run(sh, " cd " + q)
            sh.unrecorded_since = True
            sh.cwd = d
            if op["dir"] != "plain":
                self.sim.probe("hostile_directory_name")
            return
        if k == "overlap":
            # a command of shell A is still running while shell B submits and finishes another one
            if len(self.shells) < 2:
                return
            a = self.shell_for(op["shell"])
            b = self.shell_for(op["other"])
            if a is b or a.prev == op["text"] or b.prev == op["inner"]:
                return
            self.ev("overlap", a.idx, b.idx)
            ta = self.clock + 1e-3
            a.pty.type_line(op["text"])
            self.pump(a, lambda w: w[0] == "done")       # A has started (start stamp taken) and is held
            tb = self.clock + 1e-3
            self.type_and_run(b, op["inner"])
            self.add_row(op["text"], ta, cwd=a.cwd)
            self.add_row(op["inner"], tb, cwd=b.cwd)
            b.prev = op["inner"]
            b.unrecorded_since = False
            a.sim.shell_go()
            self.pump(a, lambda w: w[0] == "prompt")     # A finishes and records
            a.sim.shell_go()
            self.pump(a, "tty")
            a.prev = op["text"]
            a.unrecorded_since = False
            self.sim.probe("overlapping_commands_in_two_shells")
            self.check_db("overlapping commands in shells %d and %d" % (a.idx, b.idx))
            return
        if k == "kill":
            sh = self.shell_for(op["shell"])
            text = "K%d=%s" % (self.seq, "killed")
            self.ev("type-and-kill", sh.idx, op["at"], text)
            tsb_guess = self.clock + 1e-3
            self.type_and_run(sh, text, kill_at=op["at"])
            if op["at"] == "prompt":
                # the shell had returned to its prompt: the line must be there
                self.add_row(text, tsb_guess, cwd=sh.cwd)
                self.sim.probe("kill_at_prompt_after_recording")
            else:
                self.add_row(text, tsb_guess, maybe=True, cwd=sh.cwd)
                self.sim.probe("kill_between_execution_and_recording")
            self.check_db("killing shell %d at %s" % (sh.idx, op["at"]))
            return

    def final(self):
        self.check_db("the whole session")
        if os.path.exists(self.hfile):
            rc, out, err = self.run_oneshot("history -n -a -l 100000")
            if "error" in (out + err).lower():
                raise Violation("listing_failed", "final listing printed %r" % (out + err).strip()[:160])
            got = out.split("\n")
            if got and got[-1] == "":
                got.pop()
            want = self.expected_listing(True, "", 100000)
            if got != want:
                cls = "order_mismatch" if sorted(got) == sorted(want) else "listing_failed"
                raise Violation(cls, "final listing %s differs from the model %s" % ([g[:16] for g in got][:8], [w[:16] for w in want][:8]))
        for sh in self.shells:
            if sh.alive:
                try:
                    os.kill(sh.pty.pid, signal.SIGKILL)
                except OSError:
                    pass


class _SimView:
    pass


def _execute(cls, sc, picks=None, rng=None, keep_log=False):
    return pbatch.execute(cls, sc, picks, rng, keep_log)


CONFIGS = {
    "plain": ({"max_ops": 14}, 42),
    "long_texts": ({"max_ops": 10, "long_texts": True, "kills": False}, 8),
    "kills": ({"max_ops": 10, "kills": True}, 25),
    "dedup_on": ({"max_ops": 14, "dedup": True, "kills": True, "repeat_texts": True}, 12),
    "long": ({"max_ops": 24}, 8),
    "real_clock_tz": ({"max_ops": 12, "real_clock_tz": True, "kills": False}, 5),
}

TIERS = {"quick": 1000, "thorough": 12000}


def make_case(seed, index):
    rng = Rng(seed, index)
    r = rng.below(100)
    acc = 0
    name = "plain"
    for k, (cfg, share) in CONFIGS.items():
        acc += share
        if r < acc:
            name = k
            break
    sc = gen_scenario(rng, CONFIGS[name][0])
    sc["config"] = name
    if CONFIGS[name][0].get("real_clock_tz"):
        sc["real_clock_tz"] = True
        sc["ops"] = [o for o in sc["ops"] if o["op"] not in ("clock", "overlap")]
        for o in sc["ops"]:
            if o["op"] == "hadd" and (o.get("ts") or 0) >= 1700000500.25:
                o["ts"] = 1000.5
    sc["adversarial_picks"] = 0
    return sc, rng


def signature(v):
    preds = set()
    for o in v["scenario"].get("ops", []):
        if o["op"] == "cd" and "'" in o["dir"]:
            preds.add("directory_name_with_single_quote")
        if o["op"] == "list" and "'" in o.get("pattern", ""):
            preds.add("pattern_with_single_quote")
        if o["op"] == "hadd" and o.get("ts") is None:
            preds.add("history_add_without_timestamp")
        if o["op"] == "hadd" and o.get("ts") is not None:
            preds.add("history_add_with_timestamp")
    return preds


def run(args):
    return pbatch.run_check(
        prop="C18", args=args, runner=C18Runner, make_case=make_case, runs=TIERS[args["tier"]],
        rule="one evaluation = one simulated multi-process session on one sqlite history file: up to 3 interactive shells on "
             "ptys plus `cicada -c history ...` one-shots; 4..28 serialised steps from {type a line (plain / leading "
             "space / immediate repeat), history add [-t], history delete, listing in a fresh process (asc / default / "
             "pattern / limit), cd into a hostile directory, start another shell, SIGKILL a shell at `prompt` or between "
             "execution and recording and restart it, clock jump}; all shells read one simulated, strictly increasing "
             "clock; after every step the rows read with an independent sqlite client are compared with the model; "
             "distinct = distinct canonical event-log hashes among sessions with >= 3 recorded rows",
        nontrivial=lambda sc, res: sum(1 for o in sc["ops"] if o["op"] in ("type", "hadd")) >= 3,
        signature=signature,
        double_run=24,
        components={
            "real": ["cicada binaries (interactive on ptys and -c): main loop recording rule, history.rs, builtins/history.rs, "
                     "lineread", "sqlite (bundled) on a real file", "Linux kernel"],
            "stub": ["wall clock replaced by the simulator's clock (hook in DateTime::now)",
                     "blocking waitpid executed as park + WNOHANG"],
        },
        assumptions=[
            "sqlite's commit is trusted (no torn writes / power loss below sqlite)",
            "the clock never steps backwards in the registered configurations; equal stamps arise only through `history add`",
            "HISTORY_DELETE_DUPS=0",
        ],
    )
