"""Generated command lines with redirections, here-strings and command
substitutions, their rendering to cicada syntax, and the reference model of
what descriptors 0/1/2 of every started program must be (left-to-right
application) and what every candidate file must contain afterwards.

Shared by the C04, C08 and C11 checks."""
import os
import stat

from prun import OFD, Pipe, Runner, Std
from psim import HarnessError, Violation

O_ACCMODE, O_WRONLY, O_APPEND = 3, 1, 0o2000

FILES = ["f0", "f1", "f2", "f3"]
BAD_TARGETS = ["d0", "nodir/x", "f0/x"]   # a directory, a missing parent, a path through a regular file


def render_redir(r):
    sp = " " if r.get("spaced") else ""
    if r["k"] == "out":
        op = ">>" if r["append"] else ">"
        fdtxt = "2" if r["fd"] == 2 else ("1" if r.get("explicit1") else "")
        return "%s%s%s%s" % (fdtxt, op, sp, r["target"])
    if r["k"] == "dup":
        if r["from"] == 2:
            return "2>&1"
        return "1>&2" if r.get("explicit1") else ">&2"
    if r["k"] == "in":
        return "< %s" % r["target"]
    if r["k"] == "hs":
        return "<<< %s" % r["word"]
    raise HarnessError("redir %r" % (r,))


def render_stage(st):
    parts = [st["text"]]
    for a in st.get("args", []):
        parts.append(a)
    for r in st.get("redirs", []):
        # ("glue_arg": an argument written without a blank in front of the operator, e.g. `ls -1>out`)
        parts.append(r.get("glue_arg", "") + render_redir(r))
    return " ".join(parts)


def render_line(line):
    if line.get("raw"):
        return line["text"]
    groups = line.get("groups")
    stages = groups[-1]["stages"] if groups else line["stages"]
    bg = groups[-1].get("bg") if groups else line.get("bg")
    return " | ".join(render_stage(s) for s in stages) + (" &" if bg else "")


def gen_redirs(rng, allow_bad=True, allow_in=True, hs_sizes=(0, 1, 5, 100, 70000, 150000)):
    """up to 4 redirections for one command"""
    out = []
    n = rng.choice([0, 1, 1, 1, 2, 2, 3, 4])
    has_in = False
    for _ in range(n):
        k = rng.below(100)
        if k < 50:
            bad = allow_bad and rng.chance(10)
            out.append({"k": "out", "fd": rng.choice([1, 1, 2]), "append": rng.chance(40),
                        "target": rng.choice(BAD_TARGETS) if bad else rng.choice(FILES),
                        "spaced": rng.chance(50), "explicit1": rng.chance(30)})
        elif k < 72:
            if rng.chance(55):
                out.append({"k": "dup", "from": 2, "to": 1})
            else:
                out.append({"k": "dup", "from": 1, "to": 2, "explicit1": rng.chance(50)})
        elif k < 86 and allow_in and not has_in:
            has_in = True
            bad = allow_bad and rng.chance(15)
            out.append({"k": "in", "target": rng.choice(["nofile", "nodir/x"]) if bad else rng.choice(["in0", "in1"])})
        elif allow_in and not has_in:
            has_in = True
            size = rng.choice(list(hs_sizes))
            word = "".join("abcdefghij0123456789"[(i * 7 + size) % 20] for i in range(size)) if size else '""'
            out.append({"k": "hs", "word": word, "size": size})
    return out


class FileWorld:
    """what the work directory looks like before the run"""

    def __init__(self, rng):
        self.present = {}
        for f in FILES:
            if rng.chance(50):
                self.present[f] = ("old-%s-" % f).encode() * (1 + rng.below(6))
        self.present["in0"] = b"input zero\n"
        self.present["in1"] = bytes(range(32, 127)) * 3

    def to_json(self):
        return {k: v.decode("latin1") for k, v in self.present.items()}

    @staticmethod
    def from_json(d):
        fw = FileWorld.__new__(FileWorld)
        fw.present = {k: v.encode("latin1") for k, v in d.items()}
        return fw


class LineRunner(Runner):
    """Runner with the redirection model."""

    def script_text(self):
        return "".join(render_line(l) + "\n" for l in self.sc["lines"])

    @classmethod
    def rebuild(cls, sc):
        for l in sc["lines"]:
            if not l.get("raw"):
                l["text"] = render_line(l)
        return sc

    @classmethod
    def reductions(cls, sc):
        import copy
        for c in Runner.reductions.__func__(cls, sc):
            yield c
        for li, l in enumerate(sc["lines"]):
            for si, st in enumerate(l["stages"]):
                rs = st.get("redirs") or []
                for ri in range(len(rs)):
                    c = copy.deepcopy(sc)
                    del c["lines"][li]["stages"][si]["redirs"][ri]
                    yield cls.rebuild(c)
                for ri, r in enumerate(rs):
                    if r["k"] == "hs" and r.get("size", 0) > 5:
                        for size in (5, 65536, 70000):
                            if size < r["size"]:
                                c = copy.deepcopy(sc)
                                rr = c["lines"][li]["stages"][si]["redirs"][ri]
                                rr["size"] = size
                                rr["word"] = "".join("abcdefghij0123456789"[(i * 7 + size) % 20] for i in range(size))
                                yield cls.rebuild(c)
                ws = (st.get("role") or {}).get("writes") or []
                for wi in range(len(ws)):
                    if len(ws) > 1:
                        c = copy.deepcopy(sc)
                        del c["lines"][li]["stages"][si]["role"]["writes"][wi]
                        yield cls.rebuild(c)
                r = st.get("role") or {}
                if r.get("read") not in (None, "all", "none"):
                    c = copy.deepcopy(sc)
                    c["lines"][li]["stages"][si]["role"]["read"] = "none"
                    yield cls.rebuild(c)

    def prepare_files(self):
        w = self.sim.work
        fw = FileWorld.from_json(self.sc.get("files", {}))
        for name, data in fw.present.items():
            with open(os.path.join(w, name), "wb") as f:
                f.write(data)
            self.files[os.path.join(w, name)] = bytearray(data)
        os.mkdir(os.path.join(w, "d0"))
        with open(os.path.join(w, "f0"), "ab"):
            pass
        self.files.setdefault(os.path.join(w, "f0"), bytearray())
        p = os.path.join(w, "noexec")
        with open(p, "w") as f:
            f.write("#!/bin/sh\nexit 0\n")
        os.chmod(p, 0o644)
        self.opaque_paths = set()
        self.orig_files = {k: bytes(v) for k, v in self.files.items()}

    def abspath(self, name):
        return os.path.join(self.sim.work, name)

    def openable(self, name, for_read):
        p = self.abspath(name)
        if for_read:
            return os.path.isfile(p)
        if os.path.isdir(p):
            return False
        parent = os.path.dirname(p)
        return os.path.isdir(parent)

    def wire_stage(self, st):
        self.wire_stage_inner(st)
        if st.unopenable:
            self.diagnostic_may_land_anywhere(st)

    def diagnostic_may_land_anywhere(self, st):
        """the diagnostic of a failed open is written to wherever descriptor 2 points at that moment
        (possibly the stage's output pipe after an earlier `2>&1`): such content is not modelled"""
        for fd in (1, 2):
            if isinstance(st.objs.get(fd), Pipe):
                st.objs[fd].opaque = True
        if isinstance(st.out, Pipe):
            st.out.opaque = True

    def wire_stage_inner(self, st):
        Runner.wire_stage(self, st)
        st.unopenable = None
        redirs = st.spec.get("redirs", [])
        # input side first (cicada applies `<` and `<<<` before the output redirections;
        # they do not interact with descriptors 1 and 2)
        for r in redirs:
            if r["k"] == "in":
                if not self.openable(r["target"], True):
                    st.unopenable = r["target"]
                    # whether output targets written before or after `<` in the line are created or
                    # truncated before the failing open is not prescribed: do not judge them
                    for o in redirs:
                        if o["k"] == "out" and self.openable(o["target"], False):
                            self.opaque_paths.add(self.abspath(o["target"]))
                    return
                o = OFD(self.abspath(r["target"]), False)
                o.readonly = True
                st.objs[0] = o
            elif r["k"] == "hs":
                content = (b"" if r["word"] == '""' else r["word"].encode()) + b"\n"
                hs = Pipe(st.label() + ".hs", [], [])
                hs.fifo += content
                hs.total = len(content)
                st.hs = hs
                st.objs[0] = hs
        for r in redirs:
            if r["k"] == "out":
                if not self.openable(r["target"], False):
                    st.unopenable = r["target"]
                    # the diagnostic goes to wherever descriptor 2 points by then: not judged
                    for o in redirs:
                        if o["k"] == "out" and self.openable(o["target"], False):
                            self.opaque_paths.add(self.abspath(o["target"]))
                    return
                path = self.abspath(r["target"])
                o = OFD(path, r["append"])
                if not r["append"]:
                    self.files[path] = bytearray()
                else:
                    self.files.setdefault(path, bytearray())
                st.objs[r["fd"]] = o
            elif r["k"] == "dup":
                st.objs[r["from"]] = st.objs[r["to"]]

    def pup_did_not_start(self, st):
        if getattr(st, "unopenable", None):
            self.sim.probe("unopenable_target_command_not_run")
            return
        raise Violation("stage_not_started", "%s never executed its program" % st.label())

    # -- wiring check against the hello
    def check_wiring(self, st, cls="fd_target_mismatch"):
        if getattr(st, "unopenable", None):
            raise Violation("ran_despite_unopenable", "%s ran although its target %s cannot be opened" % (
                st.label(), st.unopenable))
        fds = st.pup.fds
        for fd in (0, 1, 2):
            want = st.objs.get(fd)
            got = fds.get(fd)
            if got is None:
                raise Violation(cls, "%s: descriptor %d is closed" % (st.label(), fd))
            link = got["link"]
            if isinstance(want, Std):
                if link != self.shell_fds0.get(want.fd):
                    raise Violation(cls, "%s: descriptor %d is %s, expected the shell's own %d (%s)" % (
                        st.label(), fd, self.short(link), want.fd, self.short(self.shell_fds0.get(want.fd))))
            elif isinstance(want, Pipe):
                if not link.startswith("pipe:["):
                    raise Violation(cls, "%s: descriptor %d is %s, expected pipe %s" % (
                        st.label(), fd, self.short(link), want.label))
                if want.ino is None:
                    want.ino = got["ino"]
                elif want.ino != got["ino"]:
                    raise Violation(cls, "%s: descriptor %d is a different pipe than %s" % (st.label(), fd, want.label))
            elif isinstance(want, OFD):
                if link != want.path:
                    raise Violation(cls, "%s: descriptor %d is %s, expected file %s" % (
                        st.label(), fd, self.short(link), self.short(want.path)))
                if got["fl"] & 0o4000:
                    # (O_NONBLOCK on a redirected descriptor: reads return EAGAIN / writes fail instead of waiting)
                    raise Violation(cls, "%s: descriptor %d on %s was opened non-blocking" % (
                        st.label(), fd, self.short(want.path)))
                if not getattr(want, "readonly", False):
                    if bool(got["fl"] & O_APPEND) != bool(want.append):
                        raise Violation(cls, "%s: descriptor %d on %s is %sopened for append" % (
                            st.label(), fd, self.short(want.path), "" if got["fl"] & O_APPEND else "not "))
                    if (got["fl"] & O_ACCMODE) == 0:
                        raise Violation(cls, "%s: descriptor %d on %s is read-only" % (st.label(), fd, self.short(want.path)))
        # distinct objects must be distinct pipes
        seen = {}
        for fd in (0, 1, 2):
            want = st.objs.get(fd)
            if isinstance(want, Pipe):
                for ofd, other in seen.items():
                    if other is not want and fds[ofd]["ino"] == fds[fd]["ino"]:
                        raise Violation(cls, "%s: descriptors %d and %d are the same pipe" % (st.label(), ofd, fd))
                seen[fd] = want

    def short(self, link):
        if link and link.startswith(self.sim.dir):
            return "<scratch>" + link[len(self.sim.dir):]
        if link and link.startswith("pipe:["):
            return "pipe"
        return link

    # -- files
    def check_files(self, cls="file_content_mismatch"):
        w = self.sim.work
        names = set(FILES) | {"in0", "in1"}
        for name in sorted(names):
            path = os.path.join(w, name)
            want = self.files.get(path)
            try:
                with open(path, "rb") as f:
                    got = f.read()
            except FileNotFoundError:
                got = None
            except IsADirectoryError:
                continue
            if want is None:
                if got is not None and path not in self.opaque_paths:
                    raise Violation(cls, "%s exists (%d bytes) but nothing should have created it" % (name, len(got)))
                continue
            if path in self.opaque_paths:
                continue
            if got is None:
                raise Violation(cls, "%s should exist with %d bytes but is absent" % (name, len(want)))
            if bytes(want) != got:
                raise Violation(cls, "%s holds %d bytes (%r...), expected %d bytes (%r...)" % (
                    name, len(got), got[:24], len(want), bytes(want[:24])))
