"""C02 -- pipelines deliver every byte, terminate, and report the last stage's status."""
import itertools
import signal

import common
import pbatch
from prun import Runner
from psim import HarnessError, Rng, Violation, fd_link, proc_state

SIZES = [0, 1, 100, 4096, 65536, 65537, 70000, 131072, 200000]
TERM_SIGS = [signal.SIGKILL, signal.SIGTERM, signal.SIGINT, signal.SIGUSR1, signal.SIGHUP, signal.SIGSEGV]
BUILTINS = ["alias", "minfd", "jobs"]


def gen_role(rng, idx, n, big_ok=True, tty=False):
    first, last = idx == 0, idx == n - 1
    if first and tty:
        t = rng.choice(["source", "source", "ignorer"])    # (stdin is the terminal: nothing to read from it)
    elif first:
        t = rng.choice(["source", "source", "source", "ignorer", "sink"])
    elif last:
        t = rng.choice(["sink", "sink", "sink", "early", "ignorer", "filter", "source"])
    else:
        t = rng.choice(["filter", "filter", "filter", "early", "sink", "source", "ignorer"])
    role = {"t": t, "code": rng.below(256) if rng.chance(70) else 0}
    if rng.chance(12):
        role["sig"] = int(rng.choice(TERM_SIGS))
    if t == "source":
        size = rng.choice(SIZES if big_ok else SIZES[:5])
        role["n"] = size
        role["seed"] = 1000 + rng.below(100000)
        lo = max(1, size // 24)
        role["chunk"] = max(lo, rng.choice([1, 512, 4096, 65536, 100000]))
    if t in ("sink", "filter", "early"):
        role["rchunk"] = rng.choice([4096, 65536, 65536, 100000, 1000])
    if t == "early":
        role["k"] = rng.choice([0, 1, 10, 5000])
    if t in ("source", "filter"):
        role["on_epipe"] = rng.choice(["sigpipe", "sigpipe", "exit"])
    return role


def gen_scenario(rng, cfg):
    lines = []
    externals = []
    nlines = 1 + rng.below(cfg.get("max_lines", 2))
    pid_names = 0
    for li in range(nlines):
        if cfg.get("background") and rng.chance(60):
            # a background job whose process ends at some scheduled moment during later pipelines
            for b in range(1 + rng.below(2)):
                name = "b%d_%d" % (li, b)
                role = {"t": "ignorer" if cfg.get("on_pty") else rng.choice(["ignorer", "ignorer", "sink"]),
                        "code": rng.below(256), "rchunk": 4096}
                if rng.chance(25):
                    role["sig"] = int(rng.choice(TERM_SIGS))
                lines.append({"text": "pup %s &" % name, "bg": True, "probe": False, "stages": [
                    {"kind": "pup", "name": name, "role": role, "text": "pup " + name}]})
        n = rng.choice([1, 2, 2, 3, 3, 4, 5, 6])
        stages = []
        big_ok = True
        for i in range(n):
            k = rng.below(100)
            if k < 84 or n == 1:
                pid_names += 1
                name = "s%d_%d" % (li, i)
                role = gen_role(rng, i, n, big_ok, tty=bool(cfg.get("on_pty")))
                if role.get("n", 0) > 70000:
                    big_ok = False
                stages.append({"kind": "pup", "name": name, "role": role, "text": "pup " + name})
                if rng.chance(8):
                    # an argument that is a quoted or escaped operator character: still an argument
                    spelled, plain = rng.choice([("'|'", "|"), ('"|"', "|"), ("'a|b'", "a|b"), ("';'", ";")])
                    stages[-1]["text"] += " " + spelled
                    stages[-1]["want_args"] = [plain]
            elif k < 90:
                stages.append({"kind": "builtin", "text": rng.choice(BUILTINS)})
            elif k < 96:
                stages.append({"kind": "notfound", "text": "no_such_cmd_%d" % rng.below(1000)})
            elif k < 98:
                stages.append({"kind": "noexec", "text": "./noexec"})
            else:
                stages.append({"kind": "garbage", "text": "./garbage"})   # executable bit set, not a program: ENOEXEC
        text = " | ".join(s["text"] for s in stages)
        lines.append({"text": text, "stages": stages, "probe": False})
        this_line = len(lines) - 1
        # the next line reports $? of this pipeline to a puppet
        lines.append({"text": "pup q%d $?" % li, "stages": [
            {"kind": "pup", "name": "q%d" % li, "role": {"t": "ignorer", "code": 0}, "text": "pup q%d" % li}],
            "probe": True})
        if cfg.get("externals") and n >= 1 and rng.chance(45):
            for _ in range(1 + rng.below(2)):
                externals.append({"line": this_line, "stage": rng.below(n),
                                  "sig": int(rng.choice([signal.SIGKILL, signal.SIGTERM, signal.SIGSTOP, signal.SIGSTOP]))})
    if cfg.get("big_builtin") and rng.chance(35):
        pre = big_alias_lines()
        for x in externals:
            x["line"] += len(pre)
        lines = pre + lines
    sc = {"prop": "C02", "lines": lines, "externals": externals, "faults": {}}
    if cfg.get("on_pty"):
        sc["on_pty"] = True
    if cfg.get("faults"):
        kind = rng.choice(["pipe", "fork", "fork"])
        sc["faults"] = {kind: [1 + rng.below(6), int(rng.choice([24, 23] if kind == "pipe" else [11, 12]))]}
    return sc


def big_alias_lines():
    """18 alias definitions of 4 kB each: from then on the builtin `alias` prints more than a pipe holds, so a
    builtin running as a pipeline stage (in a forked copy of the shell) blocks like any other writer"""
    out = []
    for i in range(18):
        text = "alias zz%02d='%s'" % (i, ("v%02d-" % i) * 1000)
        out.append({"text": text, "stages": [{"kind": "builtin", "text": text}], "probe": False})
    return out


def big_alias_size():
    return sum(len(l["text"]) + 1 for l in big_alias_lines())


def big_builtin_scenarios():
    """a builtin with more output than a pipe holds, in front of readers that stop early or read everything"""
    out = []
    def q():
        return {"text": "pup q0 $?", "stages": [{"kind": "pup", "name": "q0", "role": {"t": "ignorer", "code": 0},
                                                  "text": "pup q0"}], "probe": True}
    readers = [
        [("e0", {"t": "early", "k": 0, "rchunk": 4096, "code": 3})],
        [("e0", {"t": "early", "k": 5000, "rchunk": 4096, "code": 0})],
        [("k0", {"t": "sink", "rchunk": 65536, "code": 7})],
        [("f0", {"t": "filter", "rchunk": 65536, "code": 0, "on_epipe": "sigpipe"}), ("e1", {"t": "early", "k": 1, "rchunk": 1000, "code": 9})],
        [("i0", {"t": "ignorer", "code": 4})],
    ]
    for rd in readers:
        stages = [{"kind": "builtin", "text": "alias"}] + [
            {"kind": "pup", "name": n, "role": r, "text": "pup " + n} for n, r in rd]
        lines = big_alias_lines() + [{"text": " | ".join(s["text"] for s in stages), "stages": stages, "probe": False}, q()]
        out.append({"prop": "C02", "lines": lines, "externals": [], "faults": {}, "config": "explicit_big_builtin",
                    "adversarial_picks": 50})
        if rd[0][0] in ("k0", "f0"):
            # the same with the builtin stage stopped and continued while it is blocked on the full pipe
            # (its interrupted write returns a partial count)
            import copy
            sc = copy.deepcopy(out[-1])
            sc["stall_builtin"] = True
            sc["config"] = "explicit_big_builtin_stalled"
            out.append(sc)
    return out


def perm_scenarios():
    """every permutation of the finishing order for n <= 4 (explicit schedules)"""
    out = []
    for n in range(1, 5):
        for perm in itertools.permutations(range(n)):
            for variant in range(2):
                stages = []
                for i in range(n):
                    role = {"t": "ignorer", "code": 10 + i * 7 + variant}
                    if variant == 1 and i == n - 1:
                        role = {"t": "ignorer", "code": 0, "sig": int(signal.SIGTERM)}
                    stages.append({"kind": "pup", "name": "p%d" % i, "role": role, "text": "pup p%d" % i})
                lines = [{"text": " | ".join(s["text"] for s in stages), "stages": stages, "probe": False},
                         {"text": "pup q0 $?", "stages": [{"kind": "pup", "name": "q0", "role": {"t": "ignorer", "code": 0},
                                                            "text": "pup q0"}], "probe": True}]
                out.append({"prop": "C02", "lines": lines, "externals": [], "faults": {},
                            "exit_order": list(perm)})
    return out


class C02Runner(Runner):
    prop = "C02"

    def script_text(self):
        return "".join(l["text"] + "\n" for l in self.sc["lines"])

    def prepare_files(self):
        import os
        p = os.path.join(self.sim.work, "noexec")
        with open(p, "w") as f:
            f.write("#!/bin/sh\nexit 0\n")
        os.chmod(p, 0o644)
        p = os.path.join(self.sim.work, "garbage")
        with open(p, "wb") as f:
            f.write(b"\x01\x02not a program\n" * 8)
        os.chmod(p, 0o755)

    def pipe_fault(self, k):
        f = self.sc.get("faults", {}).get("pipe")
        return f[1] if f and f[0] == k else None

    def fork_fault(self, k):
        f = self.sc.get("faults", {}).get("fork")
        return f[1] if f and f[0] == k else None

    def pup_did_not_start(self, st):
        raise Violation("stage_not_started", "%s never executed its program" % st.label())

    # -- forced finishing order
    def role_steps(self, st, pr):
        order = self.sc.get("exit_order")
        if order is not None and st.line_no == 0:
            line = self.sc["lines"][0]
            if not line.get("_launched"):
                return []
            for i in order:
                o = line["_stages"][i]
                if not o.gone:
                    return ["exit"] if o is st else []
            return []
        return Runner.role_steps(self, st, pr)

    # -- wiring
    def on_hello(self, st):
        sim = self.sim
        fds = st.pup.fds
        line = self.sc["lines"][st.line_no]
        stages = line["_stages"]

        def obj(fd):
            f = fds.get(fd)
            return f["link"] if f else None

        shell0 = self.shell_fds0
        if st.idx == 0:
            if obj(0) != shell0.get(0):
                raise Violation("wiring_mismatch", "%s: stdin is %s, the shell's is %s" % (st.label(), obj(0), shell0.get(0)))
        else:
            if not (obj(0) or "").startswith("pipe:["):
                raise Violation("wiring_mismatch", "%s: stdin is %s, not a pipe" % (st.label(), obj(0)))
            prev = stages[st.idx - 1]
            if prev.pup is not None and prev.pup.fds.get(1) and prev.pup.fds[1]["link"] != obj(0):
                raise Violation("wiring_mismatch", "%s: stdin is not the pipe the previous stage writes to" % st.label())
            st.inp.ino = fds[0]["ino"]
        if st.idx == st.n - 1:
            if obj(1) != shell0.get(1):
                raise Violation("wiring_mismatch", "%s: stdout is %s, the shell's is %s" % (st.label(), obj(1), shell0.get(1)))
        else:
            if not (obj(1) or "").startswith("pipe:["):
                raise Violation("wiring_mismatch", "%s: stdout is %s, not a pipe" % (st.label(), obj(1)))
            if obj(1) == obj(0):
                raise Violation("wiring_mismatch", "%s: stdin and stdout are the same pipe" % st.label())
        if obj(2) != shell0.get(2):
            raise Violation("wiring_mismatch", "%s: stderr is %s, the shell's is %s" % (st.label(), obj(2), shell0.get(2)))
        if st.spec.get("want_args") is not None:
            if st.pup.hello["argv"][2:] != st.spec["want_args"]:
                raise Violation("wiring_mismatch", "%s received the arguments %r, the line gives it %r (a quoted operator "
                                "character is an argument)" % (st.label(), st.pup.hello["argv"][2:], st.spec["want_args"]))
            sim.probe("quoted_operator_character_as_argument")
        if line.get("probe"):
            prev_status = self.done_msgs[-1][1] if self.done_msgs else 0
            argv = st.pup.hello["argv"]
            if len(argv) < 3 or argv[2] != str(prev_status):
                raise Violation("status_mismatch", "$? after line %d expanded to %r, the pipeline reported %d" % (
                    st.line_no - 1, argv[2:], prev_status))
            if st.line_no >= 1:
                want = self.sc["lines"][st.line_no - 1].get("_want_status")
                if want is not None and str(want) != argv[2]:
                    raise Violation("status_mismatch", "$? is %s but the last stage ended with %s" % (argv[2], want))
        extra = sorted(fd for fd in fds if fd > 2)
        if extra:
            sim.probe("child_started_with_extra_fd")

    # -- completion of a line
    def check_line_done(self, line, status):
        sim = self.sim
        stages = line["_stages"]
        faults = self.sc.get("faults", {})
        faulted = bool(line.get("_forks_failed")) or bool(line.get("_pipe_failed"))
        single_builtin = len(stages) == 1 and stages[0].kind == "builtin"
        if single_builtin:
            return
        if line.get("bg"):
            for st in stages:
                if st.started != 1 and not getattr(st, "fork_failed", False):
                    raise Violation("stage_not_started", "%s was started %d times" % (st.label(), st.started))
            sim.probe("background_job_launched")
            return
        if any(s.pup is not None and not s.gone for s in self.stages.values() if s.line_no != self.line_no):
            sim.probe("background_child_alive_across_a_pipeline")
        if line.get("_pipe_failed"):
            for st in stages:
                if st.started:
                    raise Violation("stage_started_twice", "%s was started although pipe creation had failed" % st.label())
            if status == 0:
                raise Violation("status_mismatch", "pipeline whose pipes could not be created reported status 0")
            sim.probe("pipe_failure_clean")
            return
        for st in stages:
            if getattr(st, "fork_failed", False):
                continue
            if st.started != 1:
                raise Violation("stage_not_started", "%s was started %d times" % (st.label(), st.started))
            state = proc_state(st.pid)
            if state not in ("Z", "X"):
                raise Violation("early_return", "the shell resumed while %s is still alive (state %s)" % (st.label(), state))
            if state == "Z":
                sim.probe("stage_left_unreaped")
        last = stages[-1]
        if getattr(last, "fork_failed", False):
            if status == 0:
                raise Violation("status_mismatch", "pipeline whose last stage could not be forked reported status 0")
            return
        if last.term is None:
            raise Violation("status_mismatch", "the shell resumed without having collected the last stage's status")
        want = last.term[1] if last.term[0] == "exit" else 128 + last.term[1]
        exp = getattr(last, "expect_term", None)
        if exp is not None and exp != last.term:
            raise HarnessError("puppet %s ended with %s, the scenario said %s" % (last.label(), last.term, exp))
        line["_want_status"] = want
        if status != want:
            raise Violation("status_mismatch", "pipeline reported %d but its last stage ended with %s" % (status, want))
        if last.term[0] == "sig":
            sim.probe("last_stage_killed_by_signal")
        if any(s.kind != "pup" for s in stages[:-1]) and len(stages) > 1:
            sim.probe("builtin_or_failing_command_inside_pipeline")
        if len(stages) == 2 and stages[0].kind == "builtin" and stages[0].spec["text"] == "alias" \
                and stages[1].kind == "pup" and stages[1].role.get("t") == "sink" \
                and sum(1 for l in self.sc["lines"][:self.line_no] if l.get("text", "").startswith("alias zz")) == 18:
            # the sink read to end-of-file: it must have received the whole listing
            if stages[1].read_total != big_alias_size():
                raise Violation("stream_corrupt", "`alias | %s`: the reader got %d bytes of the %d the builtin prints" % (
                    stages[1].spec["text"], stages[1].read_total, big_alias_size()))
            sim.probe("big_builtin_output_fully_delivered")
        # order of termination
        if len(stages) >= 2 and any(getattr(s, "expect_term", None) for s in stages):
            pass

    def on_finish(self, exit_status):
        sim = self.sim
        if self.cur is not None:
            # the script did not run to its end
            raise Violation("shell_died", "the shell exited with %d before line %d had finished" % (exit_status, self.line_no))
        if self.done_msgs:
            last = self.done_msgs[-1][1]
            if exit_status != last:
                raise Violation("status_mismatch", "script exit status %d differs from the last line's status %d" % (
                    exit_status, last))
        self.result["exit"] = exit_status


def run_case(sc, picks=None, rng=None, keep_log=False):
    return pbatch.execute(C02Runner, sc, picks, rng, keep_log)


CONFIGS = {
    # name: (generator cfg, share of the batch)
    "plain": ({"max_lines": 2, "big_builtin": True}, 35),
    "signals": ({"max_lines": 2, "externals": True}, 28),
    "faults": ({"max_lines": 2, "faults": True}, 15),
    "background": ({"max_lines": 2, "background": True, "externals": True}, 12),
    "on_pty": ({"max_lines": 2, "on_pty": True, "externals": True, "background": True}, 10),
}

TIERS = {"quick": 2400, "thorough": 40000}


def make_case(seed, index):
    rng = Rng(seed, index)
    r = rng.below(100)
    acc = 0
    name = "plain"
    for k, (cfg, share) in CONFIGS.items():
        acc += share
        if r < acc:
            name = k
            break
    sc = gen_scenario(rng, CONFIGS[name][0])
    sc["config"] = name
    if name == "plain" and rng.chance(12):
        sc["hostile_env"] = True
    sc["adversarial_picks"] = rng.choice([0, 5, 20, 60, 150, 400, 1000])
    return sc, rng


def run(args):
    perms = perm_scenarios() + big_builtin_scenarios()
    return pbatch.run_check(
        prop="C02", args=args, runner=C02Runner, make_case=make_case, runs=TIERS[args["tier"]],
        extra_cases=perms,
        rule="one evaluation = one simulated script run: 1-2 generated pipelines of 1..6 stages (puppets with "
             "source/filter/sink/early-exit/ignorer roles, payloads 0 B .. 200 kB, builtins, not-found and "
             "non-executable commands in any position), every puppet micro-step and every release of the shell "
             "a seeded scheduler decision, optional external SIGKILL/SIGTERM/SIGSTOP+SIGCONT and pipe()/fork() "
             "failures; plus all permutations of finishing order for n<=4; distinct = distinct canonical event-log "
             "hashes among runs with >= 2 stages and >= 4 scheduled steps",
        nontrivial=lambda sc, res: max(len(l["stages"]) for l in sc["lines"]) >= 2 and res["steps"] >= 4,
        components={
            "real": ["cicada binary (cfg cicada_verif): parser, expansion, core.rs run_pipeline/fork/dup2/exec, "
                     "jobc::wait_fg_job, scripting", "Linux kernel: pipes, processes, signals, waitpid (WNOHANG form)"],
            "stub": ["external programs are puppets executing scheduled role steps",
                     "blocking waitpid executed as park + WNOHANG"],
        },
        assumptions=[
            "a blocking waitpid parked and polled with WNOHANG is equivalent to the blocking call for the shell's logic",
            "puppet micro-steps guarded by poll() represent what real programs do with the same descriptors",
        ],
    )
