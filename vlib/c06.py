"""C06 -- the job table tracks exactly the live jobs under every order of child events."""
import time

import common
import kbatch
from common import log

C06_CLASSES = ("table_structure", "id_not_smallest", "fg_wait_early", "fg_wait_late",
               "fg_wait_blocked_forever", "fg_status_mismatch", "table_mismatch.")
TTY_CLASSES = ("tty_not_shell_at_prompt", "tty_not_job_in_fg")
HARNESS_CLASSES = ("harness_",)

TIERS = {
    # runs, max events per run (the property's bound is 9 / 11; a superset is sampled)
    "quick": (320000, 12),
    "thorough": (8000000, 16),
}


def trace_preds(v):
    """Predicates over a minimised ksim trace, used by known-finding signatures."""
    steps = v.get("steps", [])
    kinds = [s["k"] for s in steps]
    preds = set()
    if "stop" in kinds and "cont" in kinds:
        preds.add("has_stop_and_cont")
    if "fg" in kinds:
        preds.add("uses_fg")
    if "bg" in kinds:
        preds.add("uses_bg")
    if v.get("handler_mode"):
        preds.add("handler_mode")
    if sum(1 for k in kinds if k == "launch") >= 2:
        preds.add("two_jobs")
    return preds


def classify(agg, prop, classes):
    """Split the batch's minimised violations into (mine, others)."""
    mine, harness = [], []
    for v in agg["violations"]:
        c = v["violation"]["class"]
        if c.startswith(HARNESS_CLASSES):
            harness.append(v)
        elif any(c == k or (k.endswith(".") and c.startswith(k)) for k in classes):
            mine.append(v)
    return mine, harness


def report(prop, vios, findings, seed):
    """Print VIOLATION / KNOWN-FINDING lines; returns number of unlisted violations."""
    unlisted = 0
    seen_known = set()
    seen_sig = set()
    per_class = {}
    for v in vios:
        c = v["violation"]["class"]
        preds = trace_preds(v)
        f = common.match_finding(findings, prop, c, preds)
        sig = (c, tuple(s["k"] for s in v["steps"]))
        if sig in seen_sig:
            continue
        seen_sig.add(sig)
        if f is None:
            per_class[c] = per_class.get(c, 0) + 1
            if per_class[c] > 2:
                unlisted += 1
                continue
        path = common.save_replay(prop, "%s-%s-%s" % (c, seed, v["run_index"]), v)
        if f is not None:
            key = (f.get("class"), f.get("pred", ""))
            if key not in seen_known:
                seen_known.add(key)
                print("KNOWN-FINDING: property=%s %s (replay=%s)" % (prop, f["text"], path))
        else:
            unlisted += 1
            if not v.get("replay_stable", True):
                raise common.HarnessError("violation %s did not replay identically: %s" % (c, path))
            print("VIOLATION property=%s replay=%s" % (prop, path))
            print("  class=%s detail=%s" % (c, v["violation"]["detail"]))
            print("  steps=%s" % " ".join(_fmt(s) for s in v["steps"]))
    return unlisted


def _fmt(s):
    k = s["k"]
    if k == "launch":
        return "launch(%s,%s)" % ("bg" if s["bg"] else "fg", s["pids"])
    if k in ("stop", "cont", "exit", "kill", "report"):
        extra = s.get("code", s.get("sig", ""))
        return "%s(p%s%s)" % (k, s["p"], "," + str(extra) if extra != "" else "")
    if k in ("fg", "bg"):
        return "%s(slot%s)" % (k, s["slot"])
    return k


def run(args):
    tier = args["tier"]
    seed = args["seed"]
    runs, events = TIERS[tier]
    if args["runs"]:
        runs = args["runs"]
    if args["build"]:
        common.build_ksim()
    t0 = time.time()
    # stub fidelity first: seeded event sequences on real processes vs. the SimKernel
    import kfidelity
    fid_ok, fid_bad = kfidelity.run(seed, 400 if tier == "quick" else 4000)
    if fid_bad:
        raise common.HarnessError("SimKernel disagrees with this kernel on %d sequences, first: %r" % (len(fid_bad), fid_bad[0]))
    log("[ksim] stub fidelity: %d event sequences agree with the real kernel" % fid_ok)
    agg = kbatch.run_batch(seed, runs, events, args["workers"])
    findings = common.load_findings()
    mine, harness = classify(agg, "C06", C06_CLASSES)
    if harness:
        raise common.HarnessError("harness-class violation: %s" % harness[0]["violation"])
    unlisted = report("C06", mine, findings, seed)
    wall = time.time() - t0
    n_viol = sum(n for c, n in agg["violation_classes"].items()
                 if any(c == k or (k.endswith(".") and c.startswith(k)) for k in C06_CLASSES))
    coverage = {
        "evaluations": agg["runs"],
        "distinct_nontrivial": agg["distinct"],
        "rule": "one evaluation = one seeded simulated session (job launches of 1..3 processes, <=3 concurrent jobs, "
                "stop/cont/exit/kill events delivered inside the real wait_fg_job or at the prompt-time poll, "
                "fg/bg/jobs builtins, optional async SIGCHLD-handler mode); counted distinct = distinct canonical "
                "event-log hashes among sessions with a launch and >= 2 child events",
        "samples": agg["samples"],
        "states": agg["states"],
        "traces_validated_against_impl": fid_ok,
        "steps": agg["steps"],
        "simulated_waitpid_calls": agg["waits"],
        "world_events_injected": agg["world_events"],
        "handler_mode_runs": agg["handler_runs"],
        "runs_per_hour": int(agg["runs"] / max(agg["wall_s"], 1e-6) * 3600),
        "faults_fired": {
            "child_stop": None, "note": "engine K has no fault kinds beyond schedule: every child event and every "
                                        "waitpid answer order is a scheduler decision; see probes",
        },
        "probes": agg["probes"],
        "runs_reaching_probe": agg["runs_with_probe"],
        "determinism": agg["determinism"],
        "violation_classes_seen": agg["violation_classes"],
        "components": {
            "real": ["Shell job-table methods (shell.rs)", "jobc.rs (wait_fg_job, try_wait_bg_jobs, mark_*)",
                     "signals.rs (parked maps, handle_sigchld)", "builtins fg/bg/jobs via run_command_line",
                     "tokenizer/expansion/dispatch for those three lines", "give_terminal_to"],
            "stub": ["kernel process table, waitpid, killpg, tcsetpgrp, getpgid (SimKernel)",
                     "job launch: the two insert_job/give_terminal_to lines of core.rs replicated by the harness"],
        },
    }
    del coverage["faults_fired"]["child_stop"]
    common.write_evidence("C06", tier, seed, coverage, wall, n_viol, [
        "SimKernel report semantics equal Linux's: checked on every run by performing seeded stop/continue/exit/kill "
        "sequences on real processes and comparing the waitpid reports (coverage.traces_validated_against_impl)",
        "job registration by the harness equals the parent branch of run_single_program",
        "HashMap iteration order inside cicada does not influence outcomes (double-run determinism check)",
    ])
    return 1 if unlisted else 0
